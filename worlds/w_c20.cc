// C20 — documented cross-thread use of the service decoder and the raw decoder is race free.
//
// One world, two modes (plan knob "mode"), meant for the race build (VARIANT=race: the library is compiled with
// -fsanitize-coverage=trace-loads,trace-stores, so every load and store of the code under test is a preemption point
// and an event for the happens-before detector of simk/race.cc); the library's pthread calls go to the simulated
// pthreads of simk/kernel.cc:
//
//  mode 0  service decoder: the primary task D feeds caption frames through vbi_decode(); tasks F1, F2 call
//          vbi_fetch_cc_page(); task S calls vbi_channel_switched(); the caption event handler on D optionally
//          fetches too (documented as permitted).
//  mode 1  raw decoder: the primary task R calls vbi_raw_decode() on images made with the library's own signal
//          generator; tasks A1, A2 call vbi_raw_decoder_add_services / _remove_services / _check_services.
//
// Oracles: (1) no data race (vector clocks over the decoder objects' memory), (2) no deadlock, (3) no torn result /
// one consistent service set: the order in which the tasks acquired the objects' mutexes is recorded (position of every
// foreign operation = number of acquisitions of that mutex by the primary task before it); a SEQUENTIAL REPLAY
// executes the same operations single threaded on a fresh object in that order (foreign operations are run right
// before the primary task's n-th acquisition) and every value returned in the concurrent run - each fetched page, each
// service-set return value, each vbi_raw_decode line array - must equal the replay's.  The reference is the code
// itself run sequentially, so no semantic model is involved and the adaptive behaviour of the raw decoder cannot cause
// false alarms.  DESIGN.md section 6 (C20).
#include <cstdio>
#include <cstdlib>
#include <cstring>
#include <algorithm>
#include <map>

#include "alloc.h"
#include "kernel.h"
#include "race.h"
#include "sim.h"
#include "tx.h"
#include "ttx.h"

extern "C" {
#include "src/vbi.h"
#include "src/decoder.h"
#include "src/raw_decoder.h"
#include "src/io-sim.h"
}

using namespace sim;

namespace {

static int64_t absmod(int64_t v, int64_t m) { if (m <= 0) return 0; v %= m; return v < 0 ? v + m : v; }

// ---- linearisation recorder / replayer ----------------------------------------------------------------------
struct ForeignOp { int task; int opidx; int mutex; int pos; uint64_t result; bool positioned; uint64_t acq; };
struct Lin {
  std::vector<const void*> mutexes;   // watched mutexes (index = id)
  std::vector<int> primary_count;     // acquisitions by the primary task
  int primary = -1;                   // task id of the primary task (-2 = code running outside tasks)
  bool replay = false, in_foreign = false;
  struct Pend { int mutex, pos; uint64_t acq; };
  std::map<int, Pend> pending;  // task -> (mutex, position, global acquisition number) of its latest acquisition
  uint64_t acq_counter = 0;
  std::vector<ForeignOp> ops;         // concurrent run: in completion order
  std::function<uint64_t(const ForeignOp&)> exec;  // replay: run the operation, return its result
  std::vector<bool> done;
  RunCtx* ctx = nullptr;
  int find(const void* m) { for (size_t i = 0; i < mutexes.size(); i++) if (mutexes[i] == m) return (int)i; return -1; }
  void run_due(int mi) {
    in_foreign = true;
    for (size_t i = 0; i < ops.size() && !ctx->failed; i++) {
      if (done[i] || !ops[i].positioned || ops[i].mutex != mi || ops[i].pos != primary_count[(size_t)mi]) continue;
      done[i] = true;
      uint64_t r = exec(ops[i]);
      if (r != ops[i].result)
        ctx->fail("oracle:torn-result", "operation #%d of task %d returned a value (hash %016llx) in the concurrent run that the sequential replay in lock order does not produce (%016llx) at the same point (after %d acquisitions of mutex #%d by the primary task)",
                  ops[i].opidx, ops[i].task, (unsigned long long)ops[i].result, (unsigned long long)r, ops[i].pos, mi);
      ctx->count("replayed_foreign_ops");
    }
    in_foreign = false;
  }
  void hook(const char* op, const void* m, int task) {
    int mi = find(m);
    if (mi < 0) return;
    if (!replay) {
      if (strcmp(op, "lock")) return;
      if (task == primary) primary_count[(size_t)mi]++;
      else { HarnessScope hs; pending[task] = Pend{mi, primary_count[(size_t)mi], ++acq_counter}; }
    } else {
      if (in_foreign || task != primary) return;
      if (!strcmp(op, "pre_lock")) run_due(mi);
      else if (!strcmp(op, "lock")) primary_count[(size_t)mi]++;
    }
  }
  void record(int task, int opidx, uint64_t result) {
    HarnessScope hs;
    ForeignOp f{task, opidx, -1, 0, result, false, 0};
    auto it = pending.find(task);
    if (it != pending.end()) { f.mutex = it->second.mutex; f.pos = it->second.pos; f.acq = it->second.acq; f.positioned = true; pending.erase(it); }
    ops.push_back(f);
  }
  void start_replay() {
    replay = true; primary = -2; for (auto& c : primary_count) c = 0;
    // foreign operations are replayed in the order in which they acquired the mutex, not in which they returned
    std::stable_sort(ops.begin(), ops.end(), [](const ForeignOp& a, const ForeignOp& b) { return a.acq < b.acq; });
    done.assign(ops.size(), false);
  }
  void finish_replay() { for (size_t mi = 0; mi < mutexes.size(); mi++) run_due((int)mi); }
};

// ---- caption byte stream ------------------------------------------------------------------------------------
struct TtxLine { uint8_t b[42]; };
struct Frame { uint8_t f1[2], f2[2]; std::vector<TtxLine> ttx; double ts = 0; };
static uint8_t par(int c) { return tx::odd_parity((uint8_t)c); }

static std::vector<Frame> make_caption_stream(uint64_t seed, int nframes, bool with_xds = false, bool with_t2 = false) {
  std::vector<std::pair<int, int>> pr[2];
  Rng r(seed, "caption");
  for (int f = 0; f < 2; f++) {
    auto& v = pr[f];
    auto ctl = [&](int ch2, int b1, int b2) { int c = b1 | (ch2 ? 8 : 0); v.push_back({c, b2}); if (f == 0) v.push_back({c, b2}); };
    auto text = [&](int n) { for (int i = 0; i < n; i += 2) { int a = 0x41 + (int)r.below(26), b = (i + 1 < n) ? (r.chance(1, 5) ? 0x20 : 0x61 + (int)r.below(26)) : 0; v.push_back({a, b}); } };
    // XDS packet on field 2 (current class): start pair, payload, terminator with checksum; sent twice, the decoder
    // announces on the second identical reception
    auto xds = [&](int type, std::initializer_list<int> payload, int start = 0x01) {
      for (int rep = 0; rep < 2; rep++) {
        int sum = start + type;
        v.push_back({start, type});
        std::vector<int> pl(payload); if (pl.size() & 1) pl.push_back(0);
        for (size_t i = 0; i < pl.size(); i += 2) { v.push_back({pl[i], pl[i + 1]}); sum += pl[i] + pl[i + 1]; }
        sum += 0x0F;
        v.push_back({0x0F, (128 - (sum & 127)) & 127});
      }
    };
    while ((int)v.size() < nframes) {
      int ch2 = (int)r.below(2);
      int misc = f == 0 ? 0x14 : 0x15;
      if (f == 1 && with_xds && r.chance(1, 4)) {
        // programme information: an aspect ratio with non-default geometry, then (often) another programme id number -
        // the decoder revokes the aspect and announces the new programme from inside vbi_decode()
        if (r.chance(1, 2)) xds(0x09, {0x40 + 1 + (int)r.below(30), 0x40 + 1 + (int)r.below(30)});
        if (r.chance(2, 3)) xds(0x01, {0x40 + (int)r.below(60), 0x40 + (int)r.below(24), 0x40 + 1 + (int)r.below(28), 0x40 + 1 + (int)r.below(12)});
        if (r.chance(1, 3)) xds(0x03, {'N', 'E', 'W', 'S', ' ', 0x41 + (int)r.below(26)});
        // station identification (channel class): network name, sometimes call letters; one of three stations, so the
        // station changes now and then - the decoder resets itself (caption decoder included) and announces the new
        // network from inside vbi_decode()
        if (r.chance(1, 2)) {
          int st = (int)r.below(3);
          if (r.chance(1, 3)) xds(0x02, {'W', 'A' + st, 'B', 'C'}, 0x05);
          xds(0x01, {'N', 'E', 'T', ' ', 'A' + st}, 0x05);
        }
        continue;
      }
      switch (r.below(6)) {
        case 0: case 1: ctl(ch2, misc, 0x20); ctl(ch2, 0x11 + (int)r.below(7), 0x40 + (int)r.below(32)); text(2 + (int)r.below(14)); ctl(ch2, misc, 0x2F); break;  // pop-on: RCL PAC text EOC
        case 2: case 3: ctl(ch2, misc, 0x25 + (int)r.below(3)); ctl(ch2, 0x14, 0x60 + (int)r.below(16)); text(4 + (int)r.below(20)); ctl(ch2, misc, 0x2D); break;   // roll-up: RUx PAC text CR
        case 4: ctl(ch2, misc, r.chance(1, 2) ? 0x2C : 0x2E); break;                                                                                                 // EDM / ENM
        default:
          // field 1 also carries text channel T2 now and then (resume text display, a few words, carriage returns - also two
          // in a row): with a TRIGGER handler registered the decoder runs its ITV link separator on T2 from inside vbi_decode()
          if (f == 0 && with_t2 && r.chance(1, 2)) { ctl(1, 0x14, 0x2B); text(2 + (int)r.below(10)); ctl(1, 0x14, 0x2D); if (r.chance(1, 2)) ctl(1, 0x14, 0x2D); text(2 + (int)r.below(6)); ctl(1, 0x14, 0x2D); break; }
          for (int i = (int)r.below(4); i >= 0; i--) v.push_back({0, 0});
          break;
      }
    }
  }
  std::vector<Frame> out((size_t)nframes);
  double ts = 1000.0;
  for (int i = 0; i < nframes; i++) {
    out[(size_t)i].f1[0] = par(pr[0][(size_t)i].first); out[(size_t)i].f1[1] = par(pr[0][(size_t)i].second);
    out[(size_t)i].f2[0] = par(pr[1][(size_t)i].first); out[(size_t)i].f2[1] = par(pr[1][(size_t)i].second);
    ts += 1001.0 / 30000.0;
    out[(size_t)i].ts = ts;
  }
  return out;
}

// Teletext traffic for the decoding thread ("one thread feeds the service decoder": every service): a small carousel
// of rolling-header pages in two magazines, with the things that make packet.c and vbi.c take chswcd_mutex and reset
// the caption decoder from inside vbi_decode(): headers hit by a parity error (comparison inconclusive), a header
// of another network (channel switch detected by the decoder itself), dropped frames (timestamp gap -> countdown).
static void add_teletext(std::vector<Frame>& fr, uint64_t seed, int pct, int fault_pct, RunCtx& ctx) {
  Rng r(seed, "teletext");
  std::vector<TtxLine> q;   // packets waiting for a slot
  int seq = 0; double shift = 0;
  bool other_network = false;
  for (size_t i = 0; i < fr.size(); i++) {
    if ((int)r.below(100) < fault_pct && r.chance(1, 3)) { shift += 0.2 + (double)r.below(30) / 10.0; ctx.count("fault_frames_dropped"); }   // frames dropped
    fr[i].ts += shift;
    if ((int)r.below(100) >= pct) continue;
    if (q.empty()) {
      int mag = r.chance(3, 4) ? 1 : 2;
      int page = (int)((seq++ % 6) | ((seq / 6 % 2) << 4));   // 100-105, 110-115
      if ((int)r.below(100) < fault_pct && r.chance(1, 4)) { other_network = !other_network; ctx.count("fault_foreign_network_header"); }
      char t[40]; snprintf(t, sizeof t, other_network ? "OTHERNET %d%02X  Elsewhere TV   12:%02d:%02d" : "ZSIMTEXT %d%02X Network News AB12:%02d:%02d", mag, page, (int)(i / 60 % 60), (int)(i % 60));
      uint8_t text[32]; memcpy(text, t, 32);
      ttx::Packet h = ttx::header(mag, page, 0, 0, text);
      if ((int)r.below(100) < fault_pct) { h.b[10 + r.below(32)] ^= (uint8_t)(1 << r.below(8)); ctx.count("fault_header_parity_error"); }   // parity error in the header text
      TtxLine l; memcpy(l.b, h.b, 42); q.push_back(l);
      int rows = 1 + (int)r.below(3);
      for (int y = 1; y <= rows; y++) { uint8_t ch[40]; for (auto& c : ch) c = (uint8_t)(0x20 + r.below(0x5F)); ttx::Packet p = ttx::row(mag, y, ch); memcpy(l.b, p.b, 42); q.push_back(l); }
    }
    size_t n = 1 + r.below(3);
    for (size_t k = 0; k < n && !q.empty(); k++) { fr[i].ttx.push_back(q.front()); q.erase(q.begin()); }
  }
}

// dropped frames in caption-only runs too (the decoder then counts 40 frames down before it assumes a channel switch:
// the state in which an explicit switch request meets a running countdown)
static void add_gaps(std::vector<Frame>& fr, uint64_t seed, int pct, RunCtx& ctx) {
  Rng r(seed, "gaps");
  double shift = 0;
  for (size_t i = 0; i < fr.size(); i++) {
    if ((int)r.below(100) < pct) { shift += 0.2 + (double)r.below(30) / 10.0; ctx.count("fault_frames_dropped"); }
    fr[i].ts += shift;
  }
}

static void (*g_on_caption_reset)() = nullptr;
extern "C" void __real_vbi_caption_channel_switched(vbi_decoder*);
extern "C" void __wrap_vbi_caption_channel_switched(vbi_decoder* d) {   // called by vbi_chsw_reset() (vbi.c) and vbi_event_enable()
  if (g_on_caption_reset) g_on_caption_reset();
  __real_vbi_caption_channel_switched(d);
}

static uint64_t page_hash(vbi_bool ok, const vbi_page& pg) {
  Fnv h;
  h.u64((uint64_t)ok);
  if (!ok) return h.h;
  h.u64((uint64_t)pg.pgno); h.u64((uint64_t)pg.rows); h.u64((uint64_t)pg.columns);
  for (int i = 0; i < pg.rows * pg.columns && i < 1056; i++) {
    const vbi_char& c = pg.text[i];
    h.u64((uint64_t)c.unicode | (uint64_t)c.foreground << 16 | (uint64_t)c.background << 24 | (uint64_t)c.opacity << 32 | (uint64_t)c.underline << 36 | (uint64_t)c.italic << 37 | (uint64_t)c.flash << 38 | (uint64_t)c.size << 40);
  }
  return h.h;
}

struct C20 : World {
  const char* name() const override { return "c20"; }
  const char* property() const override { return "C20"; }

  Plan generate(uint64_t seed, const std::string& tier) override {
    Plan p; p.world = name(); p.seed = seed;
    Rng r(seed, "plan");
    bool thorough = tier == "thorough";
    p.knobs["sched_seed"] = (int64_t)(r.next() >> 1);
    p.knobs["race_seed"] = (int64_t)(r.next() >> 1);
    p.knobs["policy"] = (int64_t)r.below(3);
    p.knobs["pparam"] = (p.knobs["policy"] == 1) ? 30 + (int64_t)r.below(65) : (int64_t)r.below(4);
    p.knobs["stream_seed"] = (int64_t)(r.next() >> 1);
    int mode = r.chance(1, 3) ? 1 : 0;
    p.knobs["mode"] = mode;
    static const int every[] = {0, 2, 5, 17, 60, 200, 1000};
    p.knobs["preempt_every"] = every[r.below(7)];
    if (mode == 0) {
      p.knobs["frames"] = (int64_t)r.range(20, thorough ? 400 : 100);
      p.knobs["handler_fetches"] = r.chance(1, 3);
      p.knobs["xds"] = r.chance(1, 2);   // XDS programme information on field 2: ASPECT / PROG_INFO events from inside vbi_decode()
      // Teletext on the same decoder (half of the runs), with damaged / foreign headers and dropped frames
      p.knobs["ttx_pct"] = r.chance(1, 2) ? 0 : 20 + (int64_t)r.below(81);
      p.knobs["ttx_fault_pct"] = r.chance(1, 4) ? 0 : 2 + (int64_t)r.below(30);
      p.knobs["t2"] = r.chance(1, 2);     // text channel T2 on field 1 and a TRIGGER handler (ITV link separator inside vbi_decode())
      p.knobs["gap_pct"] = r.chance(1, 2) ? 0 : 1 + (int64_t)r.below(6);   // dropped frames (also without Teletext)
      int nf = (int)r.range(1, 2);
      for (int t = 0; t < nf; t++) {
        int n = (int)r.range(5, thorough ? 200 : 50);
        for (int i = 0; i < n; i++) { Op o; o.task = 1 + t; o.kind = "fetch"; o.a = {(int64_t)r.range(1, 8), (int64_t)r.below(6)}; p.ops.push_back(o); }
      }
      int ns = r.chance(2, 3) ? (int)r.range(1, 5) : 0;
      for (int i = 0; i < ns; i++) { Op o; o.task = 3; o.kind = "switch"; o.a = {(int64_t)r.below(60)}; p.ops.push_back(o); }
    } else {
      p.knobs["frames"] = (int64_t)r.range(3, thorough ? 30 : 10);
      static const unsigned sv[] = {VBI_SLICED_TELETEXT_B, VBI_SLICED_VPS, VBI_SLICED_CAPTION_625, VBI_SLICED_TELETEXT_B | VBI_SLICED_VPS, VBI_SLICED_WSS_625, VBI_SLICED_TELETEXT_B | VBI_SLICED_CAPTION_625 | VBI_SLICED_VPS};
      for (int t = 0; t < 2; t++) {
        int n = (int)r.range(3, thorough ? 40 : 14);
        for (int i = 0; i < n; i++) {
          Op o; o.task = 1 + t;
          unsigned x = (unsigned)r.below(3);
          o.kind = x == 0 ? "add" : x == 1 ? "remove" : "check";
          o.a = {(int64_t)sv[r.below(6)], (int64_t)r.below(3), (int64_t)r.below(6)};
          p.ops.push_back(o);
        }
      }
    }
    return p;
  }

  // ---------------------------------------------------------------------------------------------- mode 0 ----
  struct CapRun {
    RunCtx& ctx; const Plan& plan; Lin lin;
    vbi_decoder* dec = nullptr;
    std::vector<Frame> stream;
    bool handler_fetches = false;
    std::vector<uint64_t> handler_results;   // results of fetches done by the handler on D (part of D's own execution)
    std::vector<uint64_t> decode_obs;        // what D itself observes: nothing functional, kept for symmetry
    // "request a channel switch" must take effect (vbi_channel_switched documentation: "the reset is not executed until the
    // next frame is about to be decoded"): calls of vbi_decode() during which the caption decoder was reset, and the call
    // in progress (or next to start) when each request returned.  Concurrent phase only.
    bool concurrent = false; int cur_call = -1; bool in_decode = false;
    std::vector<int> reset_calls; std::vector<std::pair<int, int>> request_calls;
    CapRun(RunCtx& c, const Plan& p) : ctx(c), plan(p) {}
  };
  static CapRun* gc;
  static void cap_handler(vbi_event* ev, void*) {
    CapRun& r = *gc;
    if (ev->type == VBI_EVENT_TTX_PAGE) { HarnessScope hs; r.ctx.count("ttx_page_events"); return; }
    if (ev->type == VBI_EVENT_NETWORK) { HarnessScope hs; r.ctx.count("network_events_raised_by_the_decoding_thread"); }
    else if (ev->type == VBI_EVENT_ASPECT || ev->type == VBI_EVENT_PROG_INFO) { HarnessScope hs; r.ctx.count(ev->type == VBI_EVENT_ASPECT ? "aspect_events" : "prog_info_events"); }
    else if (ev->type != VBI_EVENT_CAPTION) return;
    if (!r.handler_fetches) return;   // (a NETWORK, ASPECT or PROG_INFO handler that fetches a caption page: the event must not be sent with the caption mutex held)
    vbi_page pg; memset(&pg, 0, sizeof pg);
    vbi_bool ok = vbi_fetch_cc_page(r.dec, &pg, ev->type == VBI_EVENT_CAPTION ? ev->ev.caption.pgno : 1 + (int)(r.handler_results.size() % 8), TRUE);
    HarnessScope hs;
    r.handler_results.push_back(page_hash(ok, pg));
  }
  static vbi_decoder* cap_new_decoder() {
    vbi_decoder* d = vbi_decoder_new();
    if (d) vbi_event_handler_register(d, VBI_EVENT_CAPTION | VBI_EVENT_TTX_PAGE | VBI_EVENT_NETWORK | VBI_EVENT_ASPECT | VBI_EVENT_PROG_INFO | (gc && gc->plan.knob("t2", 0) ? VBI_EVENT_TRIGGER : 0), cap_handler, nullptr);
    return d;
  }
  static void cap_feed(CapRun& r, int i) {
    vbi_sliced s[8]; memset(s, 0, sizeof s);
    const Frame& f = r.stream[(size_t)i];
    int n = 0;
    for (size_t k = 0; k < f.ttx.size() && n < 4; k++) { s[n].id = VBI_SLICED_TELETEXT_B; s[n].line = 7 + (uint32_t)k; memcpy(s[n].data, f.ttx[k].b, 42); n++; }
    s[n].id = VBI_SLICED_CAPTION_525_F1; s[n].line = 21; s[n].data[0] = f.f1[0]; s[n].data[1] = f.f1[1]; n++;
    s[n].id = VBI_SLICED_CAPTION_525_F2; s[n].line = 284; s[n].data[0] = f.f2[0]; s[n].data[1] = f.f2[1]; n++;
    r.cur_call = i; r.in_decode = true;
    vbi_decode(r.dec, s, n, f.ts);
    r.in_decode = false;
  }
  static uint64_t cap_exec(CapRun& r, const Op& op) {
    if (op.kind == "fetch") { vbi_page pg; memset(&pg, 0, sizeof pg); vbi_bool ok = vbi_fetch_cc_page(r.dec, &pg, 1 + (int)absmod(op.arg(0) - 1, 8), TRUE); return page_hash(ok, pg); }
    if (op.kind == "switch") {
      int k0 = r.in_decode ? r.cur_call : r.cur_call + 1;   // the request takes effect somewhere between invocation and return
      vbi_channel_switched(r.dec, 0);
      if (r.concurrent) { HarnessScope hs; r.request_calls.push_back({k0, r.in_decode ? r.cur_call : r.cur_call + 1}); r.ctx.log("switch request invoked at call %d, returned at call %d (%s)", k0, r.cur_call, r.in_decode ? "in progress" : "finished"); }
      return 1;
    }
    return 0;
  }

  void run_caption(const Plan& plan, RunCtx& ctx) {
    CapRun R(ctx, plan); gc = &R;
    R.stream = make_caption_stream((uint64_t)plan.knob("stream_seed", 1), 1 + (int)absmod(plan.knob("frames", 40) - 1, 600), plan.knob("xds", 0) != 0, plan.knob("t2", 0) != 0);
    if (plan.knob("ttx_pct", 0) > 0) add_teletext(R.stream, (uint64_t)plan.knob("stream_seed", 1), (int)absmod(plan.knob("ttx_pct", 0), 101), (int)absmod(plan.knob("ttx_fault_pct", 0), 101), ctx);
    if (plan.knob("gap_pct", 0) > 0) add_gaps(R.stream, (uint64_t)plan.knob("stream_seed", 1), (int)absmod(plan.knob("gap_pct", 0), 101), ctx);
    R.handler_fetches = plan.knob("handler_fetches", 0) != 0;
    R.lin.ctx = &ctx;
    g_on_caption_reset = [] { if (gc && gc->concurrent) { HarnessScope hs; gc->reset_calls.push_back(gc->cur_call); gc->ctx.log("caption decoder reset during call %d", gc->cur_call); } };
    std::vector<uint64_t> conc_handler;
    {
      Sched sched(ctx, (uint64_t)plan.knob("sched_seed", (int64_t)plan.seed), (Policy)absmod(plan.knob("policy"), 3), (int)plan.knob("pparam"));
      simk::Kernel k(sched, ctx, 1);
      simk::RaceDetector rd(k, (uint64_t)plan.knob("race_seed", 7));
      rd.set_preempt((unsigned)absmod(plan.knob("preempt_every", 0), 100000));
      R.dec = cap_new_decoder();
      if (!R.dec) { ctx.fail("harness:new", "vbi_decoder_new failed"); return; }
      rd.watch(R.dec, sizeof(*R.dec));
      R.lin.mutexes = {&R.dec->cc.mutex, &R.dec->chswcd_mutex};
      R.lin.primary_count.assign(2, 0);
      auto race_hook = k.sync_hook;
      Lin* lin = &R.lin;
      k.sync_hook = [race_hook, lin](const char* op, const void* m, int task) { if (race_hook) race_hook(op, m, task); lin->hook(op, m, task); };
      sim::Task* td = sched.spawn("D", [&] { for (size_t i = 0; i < R.stream.size() && !ctx.failed; i++) cap_feed(R, (int)i); }, 512 * 1024);
      R.lin.primary = sched.task_id(td);
      for (int t = 1; t <= 3; t++) {
        bool any = false; for (auto& op : plan.ops) if (op.task == t) any = true;
        if (!any) continue;
        sched.spawn(t == 3 ? "S" : ("F" + std::to_string(t)), [&, t] {
          int me = sched.current_id();
          for (size_t i = 0; i < plan.ops.size() && !ctx.failed; i++) {
            const Op& op = plan.ops[i];
            if (op.task != t) continue;
            for (int y = (int)absmod(op.arg(t == 3 ? 0 : 1), 64); y > 0; y--) sched.yield();
            uint64_t res = cap_exec(R, op);
            R.lin.record(me, (int)i, res);
            ctx.count(op.kind == "fetch" ? "fetches" : "switch_requests");
          }
        }, 512 * 1024);
      }
      rd.arm();
      R.concurrent = true;
      int rc = sched.run(50000000);
      R.concurrent = false;
      rd.disarm();
      ctx.count("memory_accesses_tracked", (int64_t)rd.accesses);
      ctx.count("preemptions_at_memory_accesses", (int64_t)rd.preemptions);
      ctx.count("mutex_contended_total", ctx.stats.count("mutex_contended") ? 0 : 0);
      if (!ctx.failed && rc == 1) ctx.fail("deadlock", "tasks are blocked on each other: no task can run");
      if (!ctx.failed && rc == 2) ctx.fail("harness:budget", "scheduler switch budget exhausted");
      ctx.state(sched.interleaving_hash());
      for (auto& f : R.lin.ops) ctx.log("op %d task %d mutex %d pos %d -> %016llx", f.opidx, f.task, f.mutex, f.pos, (unsigned long long)f.result);
      conc_handler = R.handler_results;
      k.sync_hook = nullptr;
      if (!ctx.failed) check_switch_requests(R);
      if (!ctx.failed) vbi_decoder_delete(R.dec);
      R.dec = nullptr;
      if (ctx.failed) return;
      // ---- sequential replay in lock order, outside any task, same simulated pthread layer
      R.handler_results.clear();
      R.lin.start_replay();
      R.lin.exec = [&](const ForeignOp& f) { return cap_exec(R, plan.ops[(size_t)f.opidx]); };
      R.dec = cap_new_decoder();
      R.lin.mutexes = {&R.dec->cc.mutex, &R.dec->chswcd_mutex};
      k.sync_hook = [lin](const char* op, const void* m, int task) { lin->hook(op, m, task); };
      for (size_t i = 0; i < R.stream.size() && !ctx.failed; i++) cap_feed(R, (int)i);
      if (!ctx.failed) R.lin.finish_replay();
      k.sync_hook = nullptr;
      vbi_decoder_delete(R.dec); R.dec = nullptr;
      if (!ctx.failed && conc_handler != R.handler_results)
        ctx.fail("oracle:torn-result", "the pages fetched by the caption event handler on the decoding thread (%zu fetches) differ from those of the sequential replay in lock order (%zu)", conc_handler.size(), R.handler_results.size());
      int positioned = 0; for (auto& f : R.lin.ops) if (f.positioned) positioned++;
      ctx.nontrivial = positioned >= 3 && sched.switches() > 20;
      ctx.sim_seconds = (double)R.stream.size() / 30.0;
    }
    gc = nullptr; g_on_caption_reset = nullptr;
  }

  // "Other threads may ... request a channel switch": the request must not get lost.  vbi_channel_switched() documents that
  // the reset "is not executed until the next frame is about to be decoded"; so with K0 / K the vbi_decode() call in progress
  // (or the next one to start) when the request was invoked / returned, the caption decoder must have been reset during one
  // of the calls K0 .. the second one after K that has a regular timestamp (calls with an irregular timestamp only count
  // frames as dropped).  Deliberately loose: a reset executed during call K before the request arrived counts (a request
  // that meets a reset in progress is served by it), and any reset counts, whatever caused it.  Judged in runs without
  // Teletext only: a rolling page header that matches the station's clears the decoder's countdown, a request arriving
  // during that frame is then cancelled by design of the header heuristic (packet.c store_lop()), which no property covers.
  static void check_switch_requests(CapRun& R) {
    if (R.plan.knob("ttx_pct", 0) > 0) return;
    int n = (int)R.stream.size();
    auto regular = [&](int i) { if (i <= 0) return true; double d = R.stream[(size_t)i].ts - R.stream[(size_t)i - 1].ts; return d >= 0.025 && d <= 0.050; };
    for (auto& rq : R.request_calls) {
      int k0 = rq.first, k = rq.second;
      if (k >= n) continue;
      int j = k, cnt = 0;
      while (++j < n) { if (regular(j) && ++cnt == 2) break; }
      if (j >= n) { R.ctx.count("switch_requests_not_judged_at_end_of_stream"); continue; }
      bool ok = false;
      for (int rc : R.reset_calls) if (rc >= k0 && rc <= j) ok = true;
      R.ctx.count("switch_requests_judged");
      if (!ok) {
        R.ctx.fail("oracle:switch-request-lost", "vbi_channel_switched() was called during (or before) vbi_decode() call #%d and returned during (or before) call #%d, but the caption decoder was not reset during calls #%d..#%d (two regular frames later): the request got lost",
                   k0, k, k0, j);
        return;
      }
    }
  }

  // ---------------------------------------------------------------------------------------------- mode 1 ----
  struct RawRun {
    vbi_raw_decoder rd; std::vector<std::vector<uint8_t>> images; int nlines = 0;
    std::vector<uint64_t> decode_results;
    std::vector<std::pair<unsigned, unsigned>> last;  // (id, line) of the last decode
    std::vector<std::vector<std::pair<unsigned, unsigned>>> sent;  // per image: (id, line) transmitted
  };
  static void raw_setup(RawRun& r) {
    vbi_raw_decoder_init(&r.rd);
    r.rd.scanning = 625; r.rd.sampling_format = VBI_PIXFMT_YUV420; r.rd.sampling_rate = 27000000; r.rd.bytes_per_line = 1440;
    r.rd.offset = (int)(9.7e-6 * 27e6); r.rd.start[0] = 15; r.rd.count[0] = 3; r.rd.start[1] = 334; r.rd.count[1] = 2; r.rd.interlaced = FALSE; r.rd.synchronous = TRUE;
    r.nlines = r.rd.count[0] + r.rd.count[1];
  }
  static void raw_images(RawRun& r, uint64_t seed, int n) {
    Rng g(seed, "raw");
    for (int i = 0; i < n; i++) {
      vbi_sliced s[5]; memset(s, 0, sizeof s); int k = 0;
      for (int L : {15, 16, 17}) { s[k].id = (L == 16 && g.chance(2, 3)) ? VBI_SLICED_VPS : VBI_SLICED_TELETEXT_B; s[k].line = (uint32_t)L; for (int b = 0; b < 42; b++) s[k].data[b] = (uint8_t)g.next(); k++; }
      s[k].id = VBI_SLICED_TELETEXT_B; s[k].line = 334; for (int b = 0; b < 42; b++) s[k].data[b] = (uint8_t)g.next(); k++;
      // (no caption line: io-sim.c's caption signal generator converts a negative double to unsigned - undefined, outside this property)
      s[k].id = VBI_SLICED_TELETEXT_B; s[k].line = 335; for (int b = 0; b < 42; b++) s[k].data[b] = (uint8_t)g.next(); k++;
      std::vector<uint8_t> img((size_t)r.nlines * 1440, 0);
      vbi_raw_vbi_image(img.data(), img.size(), (const vbi_sampling_par*)&r.rd, 0, 0, FALSE, s, (unsigned)k);
      r.images.push_back(img);
      std::vector<std::pair<unsigned, unsigned>> sl; for (int q = 0; q < k; q++) sl.push_back({s[q].id, s[q].line});
      r.sent.push_back(sl);
    }
  }
  static uint64_t raw_decode(RawRun& r, int i) {
    vbi_sliced out[8]; memset(out, 0, sizeof out);
    uint8_t* img = (uint8_t*)malloc(r.images[(size_t)i].size());   // exact size heap buffer
    memcpy(img, r.images[(size_t)i].data(), r.images[(size_t)i].size());
    int n = vbi_raw_decode(&r.rd, img, out);
    free(img);
    Fnv h; h.u64((uint64_t)n);
    { HarnessScope hs; r.last.clear(); }
    for (int q = 0; q < n && q < 8; q++) { h.u64(out[q].id); h.u64(out[q].line); h.bytes(out[q].data, 42); HarnessScope hs; r.last.push_back({out[q].id, out[q].line}); }
    return h.h;
  }
  static uint64_t raw_exec(RawRun& r, const Op& op) {
    unsigned sv = (unsigned)op.arg(0); int strict = (int)absmod(op.arg(1), 3);
    if (op.kind == "add") return 0x1000000u + vbi_raw_decoder_add_services(&r.rd, sv, strict);
    if (op.kind == "remove") return 0x2000000u + vbi_raw_decoder_remove_services(&r.rd, sv);
    if (op.kind == "check") return 0x3000000u + vbi_raw_decoder_check_services(&r.rd, sv, strict);
    return 0;
  }

  void run_raw(const Plan& plan, RunCtx& ctx) {
    int nframes = 1 + (int)absmod(plan.knob("frames", 5) - 1, 60);
    Lin lin; lin.ctx = &ctx;
    std::vector<uint64_t> conc;
    Sched sched(ctx, (uint64_t)plan.knob("sched_seed", (int64_t)plan.seed), (Policy)absmod(plan.knob("policy"), 3), (int)plan.knob("pparam"));
    simk::Kernel k(sched, ctx, 1);
    simk::RaceDetector rd(k, (uint64_t)plan.knob("race_seed", 7));
    rd.set_preempt((unsigned)absmod(plan.knob("preempt_every", 0), 100000));
    RawRun* R = new RawRun();
    raw_setup(*R);
    raw_images(*R, (uint64_t)plan.knob("stream_seed", 1), nframes);
    vbi_raw_decoder_add_services(&R->rd, VBI_SLICED_TELETEXT_B | VBI_SLICED_VPS, 0);
    rd.watch(&R->rd, sizeof R->rd);
    if (R->rd.pattern) rd.watch(R->rd.pattern, sizeof(vbi3_raw_decoder));
    lin.mutexes = {&R->rd.mutex}; lin.primary_count.assign(1, 0);
    auto race_hook = k.sync_hook;
    Lin* lp = &lin;
    k.sync_hook = [race_hook, lp](const char* op, const void* m, int task) { if (race_hook) race_hook(op, m, task); lp->hook(op, m, task); };
    sim::Task* tr = sched.spawn("R", [&] { for (int i = 0; i < nframes && !ctx.failed; i++) { uint64_t h = raw_decode(*R, i); HarnessScope hs; R->decode_results.push_back(h); } }, 1024 * 1024);
    lin.primary = sched.task_id(tr);
    for (int t = 1; t <= 2; t++) {
      sched.spawn("A" + std::to_string(t), [&, t] {
        int me = sched.current_id();
        for (size_t i = 0; i < plan.ops.size() && !ctx.failed; i++) {
          const Op& op = plan.ops[i];
          if (op.task != t) continue;
          for (int y = (int)absmod(op.arg(2), 64); y > 0; y--) sched.yield();
          uint64_t res = raw_exec(*R, op);
          lin.record(me, (int)i, res);
          ctx.count("service_ops");
        }
      }, 512 * 1024);
    }
    rd.arm();
    int rc = sched.run(200000000);
    rd.disarm();
    ctx.count("memory_accesses_tracked", (int64_t)rd.accesses);
    ctx.count("preemptions_at_memory_accesses", (int64_t)rd.preemptions);
    if (!ctx.failed && rc == 1) ctx.fail("deadlock", "tasks are blocked on each other: no task can run");
    if (!ctx.failed && rc == 2) ctx.fail("harness:budget", "scheduler switch budget exhausted");
    ctx.state(sched.interleaving_hash());
    for (auto& f : lin.ops) ctx.log("op %d task %d pos %d -> %llx", f.opidx, f.task, f.pos, (unsigned long long)f.result);
    for (auto h : R->decode_results) ctx.log("decode -> %016llx", (unsigned long long)h);
    conc = R->decode_results;
    k.sync_hook = nullptr;
    vbi_raw_decoder_destroy(&R->rd);
    if (!ctx.failed) {
      RawRun* T = new RawRun();
      raw_setup(*T); T->images = R->images; T->sent = R->sent;
      // The service set in force, as the API itself reports it: the return value of the last add / remove call.
      // In the replay every service call sits at a known place between two decodes, so each decode can be held
      // against that set: nothing outside it may come out, and every transmitted line of a service inside it must.
      // Not demanded: line 16, whose service changes from image to image (the decoder predicts a line as blank
      // after one miss and looks again only every 16th frame - documented learning, raw_decoder.c decode_pattern),
      // and services of which only a part is in the set (removing VBI_SLICED_TELETEXT_B_L10_625 alone removes the
      // merged Teletext job while the return value still lists _L25: a truthfulness flaw of the return value,
      // outside what the property states); and nothing while a Caption service shares the lines (its slicer can
      // lock onto random Teletext payload: signal identification, not service-set consistency).
      unsigned model = vbi_raw_decoder_add_services(&T->rd, VBI_SLICED_TELETEXT_B | VBI_SLICED_VPS, 0);
      lin.start_replay();
      lin.mutexes = {&T->rd.mutex};
      lin.exec = [&](const ForeignOp& f) {
        const Op& op = plan.ops[(size_t)f.opidx];
        uint64_t r = raw_exec(*T, op);
        if (op.kind == "add" || op.kind == "remove") model = (unsigned)(r & 0xFFFFFFu);
        return r;
      };
      k.sync_hook = [lp](const char* op, const void* m, int task) { lp->hook(op, m, task); };
      for (int i = 0; i < nframes && !ctx.failed; i++) {
        T->decode_results.push_back(raw_decode(*T, i));
        if (ctx.verbose) { fprintf(stderr, "    replay decode #%d model %x ->", i, model); for (auto& o : T->last) fprintf(stderr, " %x@%u", o.first, o.second); fprintf(stderr, "   (sent:"); for (auto& q : T->sent[(size_t)i]) fprintf(stderr, " %x@%u", q.first, q.second); fprintf(stderr, ")\n"); }
        for (auto& o : T->last)
          if (!(o.first & model)) { ctx.fail("oracle:service-not-in-set", "sequential replay: decode #%d returned a line of service 0x%x (line %u) although the service set in force (the last add/remove call returned 0x%x) does not contain it", i, o.first, o.second, model); break; }
        if (ctx.failed) break;
        for (auto& sl : T->sent[(size_t)i]) {
          if ((sl.first & model) != sl.first || sl.second == 16 || (model & ~(VBI_SLICED_TELETEXT_B | VBI_SLICED_VPS | VBI_SLICED_WSS_625))) continue;
          // a record for the line under another service of the set (a WSS or Caption job added with strict 0 can lock onto
          // a Teletext waveform) is a matter of signal identification (property C04), not of service-set consistency
          bool found = false; for (auto& o : T->last) if (o.second == sl.second) { found = true; if (!(o.first & sl.first)) ctx.count("line_identified_as_other_service_of_the_set"); }
          if (!found) { ctx.fail("oracle:service-in-set-not-decoded", "sequential replay: decode #%d did not return line %u (service 0x%x) although the service set in force (0x%x) contains it", i, sl.second, sl.first, model); break; }
        }
      }
      if (!ctx.failed) lin.finish_replay();
      k.sync_hook = nullptr;
      if (!ctx.failed && conc != T->decode_results) {
        size_t d = 0; while (d < conc.size() && d < T->decode_results.size() && conc[d] == T->decode_results[d]) d++;
        ctx.fail("oracle:inconsistent-decode", "vbi_raw_decode #%zu returned lines in the concurrent run that the sequential replay of the service changes in lock order does not produce (one decode used more than one service set, or a torn decoder state)", d);
      }
      vbi_raw_decoder_destroy(&T->rd);
      delete T;
    }
    int positioned = 0; for (auto& f : lin.ops) if (f.positioned) positioned++;
    ctx.nontrivial = positioned >= 3 && sched.switches() > 20;
    ctx.sim_seconds = nframes / 25.0;
    delete R;
  }

  void run(const Plan& plan, RunCtx& ctx) override {
    if (absmod(plan.knob("mode", 0), 2) == 0) { ctx.count("mode_service_decoder"); run_caption(plan, ctx); }
    else { ctx.count("mode_raw_decoder"); run_raw(plan, ctx); }
  }
};
C20::CapRun* C20::gc = nullptr;
ZSIM_REGISTER_WORLD(C20)

}  // namespace
