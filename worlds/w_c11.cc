// C11 — event handlers run exactly once, in order, and may re-register from callbacks.
//
// World: one vbi_decoder and up to six handler identities (function x user
// pointer; four layouts: all distinct, shared functions with several user
// pointers, one function for all, NULL user pointer for all).  One or two
// tasks issue register / unregister / legacy add / legacy remove with masks
// (0, single bits, unions, -1) and raise events, directly through
// vbi_send_event() and by feeding real sliced data through vbi_decode()
// (Teletext pages, caption words, XDS packets, VPS twice, 8/30 format 1 and 2,
// WSS).  Every handler identity has a *script*: on its n-th invocation it
// performs register / unregister / add / remove / unregister+register on
// itself, the next, the previous, the first, the last or a named handler.
// The script is the re-entrancy "schedule" of this world; the seeded
// scheduler interleaves the two tasks frame by frame.
//
// Seam: -Wl,--wrap=vbi_send_event (worlds/w_c11.mk) brackets every event the
// service decoders raise, so the oracle knows where one delivery starts and
// ends and which type was raised.  No /repo source is touched.
//
// Oracle: an ordered-list reference model written from the property statement
// and the documentation of vbi_event_handler_register() ("called in
// registration order", "when the handler with user_data is already
// registered, its event_mask will be changed").
//
// Last clause ("Teletext pages are acquired exactly while at least one
// registered handler requests Teletext page events"): every Teletext packet
// this world transmits - the probe pages and, in about half of the runs, a
// continuous multi-magazine page carousel ("ttx" ops: n packets of a stream
// that runs across all enable / disable boundaries, so they fall anywhere
// in a page) - passes through a reference receiver with an acquisition
// gate, written from EN 300 706 (a page is the header and the packets of its
// magazine up to the next header of that magazine; rows not retransmitted
// persist unless the header carries C4) and from the clause.  Every
// VBI_EVENT_TTX_PAGE raised by the decoder and the cached content of the
// page concerned (all rows, text compared) are checked at every header; all
// page numbers ever transmitted are audited at the end of the run.  The
// accepted outcomes for pages that straddle a boundary are listed at
// model_header_pre().
#include <cstdio>
#include <cstring>
#include <ctime>
#include <map>
#include <set>

#include "alloc.h"
#include "sim.h"
#include "ttx.h"

extern "C" {
#include "src/libzvbi.h"
void vbi_send_event(vbi_decoder* vbi, vbi_event* ev);  // internal-but-extern (src/event.h)
void __real_vbi_send_event(vbi_decoder* vbi, vbi_event* ev);
void __wrap_vbi_send_event(vbi_decoder* vbi, vbi_event* ev);
}

using namespace sim;

namespace {

enum { NID = 6 };
// identity i = (function fn[i], user pointer user[i]); pairs are distinct within a layout
static const int kLayout[4][2][NID] = {
    {{0, 1, 2, 3, 4, 5}, {0, 1, 2, 3, 4, 5}},  // everything distinct
    {{0, 0, 0, 1, 1, 2}, {0, 1, 2, 0, 1, 0}},  // one function with three user pointers, user pointers shared between functions
    {{0, 0, 0, 0, 0, 0}, {0, 1, 2, 3, 4, 5}},  // one function for all
    {{0, 1, 2, 3, 4, 5}, {0, 0, 0, 0, 0, 0}},  // NULL user pointer for all
};
static int g_cookie[NID];
static void* user_ptr(int u) { return u == 0 ? nullptr : (void*)&g_cookie[u]; }  // user 0 is the NULL pointer

enum State { ST_NOT = 0, ST_MUST, ST_EITHER, ST_ADDED };
struct Inst { int seq; int id; int mask; int st = ST_NOT; bool called = false; };

enum Action { A_UNREG = 0, A_REG, A_LADD, A_LREMOVE, A_REREG, A_N };
static const char* action_name[] = {"unregister", "register", "legacy_add", "legacy_remove", "unreg+reg"};
enum { kMaxActionsPerDelivery = 10 };
enum Tsel { T_SELF = 0, T_NEXT, T_PREV, T_FIRST, T_LAST, T_ID0 };

struct Script { int id, nth, period, action, tsel, mask; };

static int to_bcd(int v) { return ((v / 10) % 10) * 16 + v % 10; }
static int64_t absmod(int64_t v, int64_t m) { v %= m; return v < 0 ? v + m : v; }

struct C11;
struct St {
  RunCtx* ctx = nullptr; Sched* sched = nullptr; vbi_decoder* dec = nullptr;
  int layout = 0, nh = NID;
  std::vector<Inst> lst;  // the reference model: live registrations in registration order
  int next_seq = 1;
  bool ever_removed[NID] = {false, false, false, false, false, false};
  int calls_of[NID] = {0, 0, 0, 0, 0, 0};
  std::vector<Script> scripts;
  // delivery in progress
  bool in_delivery = false; int cur_type = 0; int last_seq = 0; int cur_calls = 0; int cur_actions = 0;
  bool in_callback = false, in_decode = false, trigger_cr = false;
  // counters
  int deliveries = 0, deliveries_multi = 0, calls = 0, cb_actions = 0, ttx_flips = 0, probes_checked = 0;
  bool ttx_on = false;
  double ts = 7000.0;
  int page_ctr[2] = {1, 1};
  int cc_style = 0;
  Fnv shape;
  // ---- Teletext acquisition reference (last clause of the statement), see model_header_pre() ----
  struct TxRow { int y; bool en; uint8_t c[40]; };
  // one transmission of one page: its header and the packets of its magazine up to the next header of that magazine
  struct TxPage { int pgno = 0, serial = 0, flips_at_hdr = 0; bool erase = false, hdr_en = false, hdr_flip = false; std::vector<TxRow> rows; };
  struct Image {  // what a receiver holds for one page number (rows 1..24 as transmitted; blank where never received)
    bool have = false; bool have_row[25]; uint8_t row[25][40];
    Image() { memset(have_row, 0, sizeof have_row); memset(row, 0x20, sizeof row); }
  };
  std::vector<TxPage> txs;
  int on_air[8] = {-1, -1, -1, -1, -1, -1, -1, -1};  // per magazine: the transmission on air (index into txs), -1 none / time filling
  int cand[8] = {-1, -1, -1, -1, -1, -1, -1, -1};    // per magazine: the last page whose header passed while TTX_PAGE was requested
  std::map<int, Image> stored;                      // page number -> content held by the gated reference receiver
  std::set<int> sent_pgnos;
  std::vector<std::pair<int, int>> ttx_ev;          // VBI_EVENT_TTX_PAGE (pgno, subno) raised during the vbi_decode() in progress
  int exp_kind = 0, exp_pgno = 0, exp_seen = 0;
  int pages_must = 0, pages_may = 0, pages_may_stored = 0, pages_zombie = 0, pages_hdr_in_gap = 0, rows_in_gap = 0, content_checks = 0;
  // ---- the continuous transmission ("ttx" ops) ----
  struct StreamMag { int my_tx = -1, pos = 0, count = 0; std::vector<int> pending; };
  uint64_t sseed = 0, sstep = 0; int smag[8] = {3, 0, 0, 0, 0, 0, 0, 0}, nsm = 1, spages = 2, srows = 3, stream_packets = 0;
  StreamMag sm[8];

  int fn_of(int id) const { return kLayout[layout][0][id]; }
  int user_of(int id) const { return kLayout[layout][1][id]; }
  int find(int id) const { for (size_t i = 0; i < lst.size(); i++) if (lst[i].id == id) return (int)i; return -1; }
  int identity(int f, int u) const { for (int i = 0; i < NID; i++) if (fn_of(i) == f && user_of(i) == u) return i; return -1; }
  void union_changed() {
    bool on = false;
    for (auto& x : lst) if (x.mask & VBI_EVENT_TTX_PAGE) on = true;
    if (on != ttx_on) {
      ttx_on = on; ttx_flips++; ctx->log("model ttx %s", on ? "on" : "off");
      ctx->count(in_callback ? "fault_ttx_flip_in_callback" : "fault_ttx_flip_api");
      bool mid = false;  // a page is on air (header sent, next header of its magazine not yet)
      for (int m = 0; m < 8; m++) if (on_air[m] >= 0) mid = true;
      if (mid) ctx->count(on ? "fault_ttx_on_midpage" : "fault_ttx_off_midpage");
      if (on) {  // other consumers stay registered across the gap: the decoder as a whole never went idle
        int others = 0;
        for (auto& x : lst) others |= x.mask & ~VBI_EVENT_TTX_PAGE;
        for (auto& x : lst) if (!(x.mask & VBI_EVENT_TTX_PAGE)) { ctx->count("ttx_on_beside_other_handlers"); break; }
        if (others & (VBI_EVENT_NETWORK | VBI_EVENT_NETWORK_ID | VBI_EVENT_LOCAL_TIME | VBI_EVENT_PROG_ID)) ctx->count("ttx_on_beside_bsdata_consumer");
        if (others & (VBI_EVENT_CAPTION | VBI_EVENT_TRIGGER | VBI_EVENT_ASPECT | VBI_EVENT_PROG_INFO)) ctx->count("ttx_on_beside_caption_consumer");
      }
    }
  }
  // ---- model transitions (the documented behaviour of the four entry points) ----
  void m_remove_at(int pos) { ever_removed[lst[(size_t)pos].id] = true; lst.erase(lst.begin() + pos); }
  void m_set_mask(int pos, int mask) {
    Inst& x = lst[(size_t)pos];
    if (x.mask == mask) return;
    x.mask = mask;
    // Leniency: the statement does not say whether a mask change made while an event is being delivered affects
    // that event for a handler whose turn has not come yet -> either outcome (called once or not at all).
    if (in_delivery && !x.called && x.st != ST_ADDED) x.st = ST_EITHER;
  }
  void m_append(int id, int mask) {
    Inst x; x.seq = next_seq++; x.id = id; x.mask = mask;
    // statement: "a handler added during delivery is called at most once for that event" -> zero or one call
    x.st = in_delivery ? ST_ADDED : ST_NOT;
    lst.push_back(x);
  }
  void m_register(int id, int mask) {  // vbi_event_handler_register / _unregister (mask 0)
    int pos = find(id);
    if (pos >= 0) { if (mask == 0) m_remove_at(pos); else m_set_mask(pos, mask); }
    else if (mask != 0) m_append(id, mask);
    union_changed();
  }
  int m_legacy(int id, int mask) {  // vbi_event_handler_add / _remove (mask 0): matches on the function only
    int f = fn_of(id), found = 0;
    for (int i = 0; i < (int)lst.size();) {
      if (fn_of(lst[(size_t)i].id) != f) { i++; continue; }
      found++;
      if (mask == 0) m_remove_at(i); else { m_set_mask(i, mask); i++; }
    }
    if (!found && mask != 0) m_append(id, mask);
    union_changed();
    return found;
  }
};
static St* g = nullptr;

static void on_call(int f, vbi_event* ev, void* user);
#define HFN(n) static void handler##n(vbi_event* ev, void* user) { on_call(n, ev, user); }
HFN(0) HFN(1) HFN(2) HFN(3) HFN(4) HFN(5)
static vbi_event_handler kFn[NID] = {handler0, handler1, handler2, handler3, handler4, handler5};

// ---- the four entry points, applied to the code under test and to the model ----
static void do_register(int id, int mask) {
  St& s = *g;
  s.ctx->log("%s register id=%d mask=%x", s.in_callback ? " cb" : "api", id, (unsigned)mask);
  vbi_bool ok;
  { SutScope ss; ok = vbi_event_handler_register(s.dec, mask, kFn[s.fn_of(id)], user_ptr(s.user_of(id))); }
  if (!ok) { s.ctx->fail("oracle:register-failed", "vbi_event_handler_register(id %d, mask %x) returned FALSE", id, (unsigned)mask); return; }
  s.m_register(id, mask);
}
static void do_unregister(int id) {
  St& s = *g;
  s.ctx->log("%s unregister id=%d", s.in_callback ? " cb" : "api", id);
  { SutScope ss; vbi_event_handler_unregister(s.dec, kFn[s.fn_of(id)], user_ptr(s.user_of(id))); }
  s.m_register(id, 0);
}
static int do_legacy_add(int id, int mask) {
  St& s = *g;
  s.ctx->log("%s legacy add id=%d mask=%x", s.in_callback ? " cb" : "api", id, (unsigned)mask);
  vbi_bool ok;
  { SutScope ss; ok = vbi_event_handler_add(s.dec, mask, kFn[s.fn_of(id)], user_ptr(s.user_of(id))); }
  if (!ok) { s.ctx->fail("oracle:register-failed", "vbi_event_handler_add(id %d, mask %x) returned FALSE", id, (unsigned)mask); return 0; }
  return s.m_legacy(id, mask);
}
static int do_legacy_remove(int id) {
  St& s = *g;
  s.ctx->log("%s legacy remove fn=%d", s.in_callback ? " cb" : "api", s.fn_of(id));
  { SutScope ss; vbi_event_handler_remove(s.dec, kFn[s.fn_of(id)]); }
  return s.m_legacy(id, 0);
}

// ---- delivery oracle ---------------------------------------------------------
static void delivery_begin(const vbi_event* ev) {
  St& s = *g;
  int type = ev->type;
  // page announcements of the Teletext decoder: judged by the acquisition reference when the vbi_decode() call returns
  if (s.in_decode && type == VBI_EVENT_TTX_PAGE) s.ttx_ev.push_back({ev->ev.ttx_page.pgno, ev->ev.ttx_page.subno});
  s.in_delivery = true; s.cur_type = type; s.last_seq = 0; s.cur_calls = 0; s.cur_actions = 0;
  for (auto& x : s.lst) { x.st = (x.mask & type) ? ST_MUST : ST_NOT; x.called = false; }
  s.ctx->log("raise type=%x handlers=%zu", (unsigned)type, s.lst.size());
  if (s.in_decode && type == VBI_EVENT_TRIGGER && !s.trigger_cr) s.ctx->count("deferred_trigger_fired");
  if (s.in_decode) { char k[40]; snprintf(k, sizeof k, "raised_by_data_%03x", (unsigned)type & 0xFFF); s.ctx->count(k); }
}
// every handler that was registered for the type before the raise, is still registered, whose mask was not
// touched since and whose turn has passed (seq < upto) must have been called
static void check_not_skipped(int upto_seq, const char* when) {
  St& s = *g;
  for (auto& x : s.lst)
    if (x.seq < upto_seq && x.st == ST_MUST && !x.called) {
      s.ctx->fail("oracle:handler-skipped", "event %x: handler id %d (registered before the raise with mask %x, never removed) was not called %s",
                  (unsigned)s.cur_type, x.id, (unsigned)x.mask, when);
      return;
    }
}
static void delivery_end() {
  St& s = *g;
  if (!s.ctx->failed) check_not_skipped(1 << 30, "by the end of the delivery");
  s.ctx->log("raise end calls=%d", s.cur_calls);
  s.in_delivery = false;
  s.deliveries++;
  if (s.cur_calls >= 2) s.deliveries_multi++;
  s.shape.u64((uint64_t)s.cur_type * 1000003u + (uint64_t)s.cur_calls * 131u + (uint64_t)s.cur_actions);
  s.ctx->state(s.shape.h);
}

static void run_scripts(int id, int my_seq);

static void on_call(int f, vbi_event* ev, void* user) {
  HarnessScope hs;
  St& s = *g;
  if (!g || s.ctx->failed) return;
  int u = -1;
  for (int i = 0; i < NID; i++) if (user_ptr(i) == user) { u = i; break; }
  if (u < 0) { s.ctx->fail("oracle:user-pointer", "handler function %d called with a user pointer that was never registered", f); return; }
  int id = s.identity(f, u);
  int pos = id >= 0 ? s.find(id) : -1;
  s.ctx->log("  call fn=%d user=%d id=%d type=%x", f, u, id, (unsigned)ev->type);
  if (pos < 0) {
    bool fn_live = false;
    for (auto& x : s.lst) if (s.fn_of(x.id) == f) fn_live = true;
    if (id >= 0 && s.ever_removed[id])
      s.ctx->fail("oracle:removed-handler-called", "handler id %d (fn %d, user %d) was called after it had been removed", id, f, u);
    else if (fn_live)
      s.ctx->fail("oracle:user-pointer", "handler function %d called with user pointer %d, which is not the one it was registered with", f, u);
    else
      s.ctx->fail("oracle:unregistered-handler-called", "handler function %d / user %d called but never registered", f, u);
    return;
  }
  s.calls++; s.cur_calls++;
  int my_seq = s.lst[(size_t)pos].seq;
  if (!s.in_delivery) {
    // an event raised from inside vbi.c (channel switch reset) is not bracketed by the seam: only the
    // "registered, own user pointer" clauses can be checked
    s.ctx->count("unbracketed_callback");
  } else {
    Inst& x = s.lst[(size_t)pos];
    if (ev->type != s.cur_type) {
      s.ctx->fail("oracle:event-mutated", "event raised with type %x reached handler id %d with type %x", (unsigned)s.cur_type, id, (unsigned)ev->type);
      return;
    }
    if (x.called) { s.ctx->fail("oracle:delivered-twice", "event %x delivered twice to handler id %d", (unsigned)s.cur_type, id); return; }
    if (x.st == ST_NOT) {
      s.ctx->fail("oracle:unrequested-event", "event %x delivered to handler id %d whose mask is %x", (unsigned)s.cur_type, id, (unsigned)x.mask);
      return;
    }
    if (x.seq <= s.last_seq) {
      s.ctx->fail("oracle:order", "event %x: handler id %d (registration #%d) called after registration #%d", (unsigned)s.cur_type, id, x.seq, s.last_seq);
      return;
    }
    check_not_skipped(x.seq, "before a later registered handler was");
    if (s.ctx->failed) return;
    if (x.st == ST_ADDED) s.ctx->count("added_during_delivery_called");
    if (x.st == ST_EITHER) s.ctx->count("mask_changed_during_delivery_called");
    x.called = true;
    s.last_seq = x.seq;
  }
  int n = s.calls_of[id]++;
  (void)n;
  s.in_callback = true;
  run_scripts(id, my_seq);
  s.in_callback = false;
}

// resolve a relative target against the model list; -1 = no such handler
static int resolve(int tsel, int my_seq, int nh) {
  St& s = *g;
  int me = -1;
  for (size_t i = 0; i < s.lst.size(); i++) if (s.lst[i].seq == my_seq) me = (int)i;
  switch (tsel) {
    case T_SELF: return me >= 0 ? s.lst[(size_t)me].id : -1;
    case T_NEXT: {
      if (me >= 0) return me + 1 < (int)s.lst.size() ? s.lst[(size_t)me + 1].id : -1;
      for (auto& x : s.lst) if (x.seq > my_seq) return x.id;  // the running handler removed itself already
      return -1;
    }
    case T_PREV: {
      int best = -1;
      for (auto& x : s.lst) if (x.seq < my_seq) best = x.id;
      return best;
    }
    case T_FIRST: return s.lst.empty() ? -1 : s.lst.front().id;
    case T_LAST: return s.lst.empty() ? -1 : s.lst.back().id;
    default: return (tsel - T_ID0) % nh;
  }
}

static void run_scripts(int id, int my_seq) {
  St& s = *g;
  int count = s.calls_of[id] - 1;  // 0-based number of this invocation
  for (const Script& sc : s.scripts) {
    if (s.ctx->failed) return;
    if (sc.id != id) continue;
    bool fire = sc.period == 0 ? count == sc.nth : (count % sc.period) == (sc.nth % sc.period);
    if (!fire) continue;
    // A handler that unregisters and registers itself (or a ring of handlers doing it to each other) on every call is
    // appended to the list again and again and would be called for ever: bound the re-entrant actions per delivery.
    if (s.in_delivery && s.cur_actions >= kMaxActionsPerDelivery) { s.ctx->count("cb_action_cap"); continue; }
    int self_id = id;
    int tgt = sc.tsel == T_SELF ? self_id : resolve(sc.tsel, my_seq, s.nh);
    if (tgt < 0) { s.ctx->count("cb_target_absent"); continue; }
    int tpos = s.find(tgt);
    int tseq = tpos >= 0 ? s.lst[(size_t)tpos].seq : 0;
    // which relation does the target have to the running handler (for the fault counters)
    const char* rel = "absent";
    if (tpos >= 0) {
      if (tseq == my_seq) rel = "self";
      else if (tseq < my_seq) rel = "prev";
      else {
        rel = "later";
        int nxt = resolve(T_NEXT, my_seq, s.nh);
        if (nxt == tgt) rel = "next";
      }
    }
    s.cb_actions++; s.cur_actions++;
    s.ctx->log("  script id=%d #%d: %s target=%d (%s) mask=%x", id, count, action_name[sc.action], tgt, rel, (unsigned)sc.mask);
    switch (sc.action) {
      case A_UNREG:
        do_unregister(tgt);
        s.ctx->count(std::string("fault_cb_remove_") + rel);
        break;
      case A_REG:
        if (sc.mask == 0) s.ctx->count(std::string("fault_cb_remove_") + rel);
        else if (tpos < 0) s.ctx->count("fault_cb_add_new");
        else s.ctx->count("fault_cb_mask_change");
        do_register(tgt, sc.mask);
        break;
      case A_LADD: {
        int found = do_legacy_add(tgt, sc.mask);
        s.ctx->count("fault_cb_legacy_add");
        if (found >= 2) s.ctx->count("cb_legacy_add_multi");
        break;
      }
      case A_LREMOVE: {
        int found = do_legacy_remove(tgt);
        s.ctx->count("fault_cb_legacy_remove");
        if (found >= 2) s.ctx->count("cb_legacy_remove_multi");
        break;
      }
      case A_REREG:
        do_unregister(tgt);
        if (!s.ctx->failed) do_register(tgt, sc.mask ? sc.mask : -1);
        s.ctx->count(tpos >= 0 && tseq == my_seq ? "fault_cb_rereg_self" : "fault_cb_rereg_other");
        break;
      default: break;
    }
  }
}

// ---- transmitter helpers -------------------------------------------------------
static void header_text(int pgno, uint8_t out[32]) {
  char t[40];
  snprintf(t, sizeof t, "ZSIMTEXT%03X Network News AB12:34:56", pgno);
  memcpy(out, t, 32);
}

// ---- the acquisition reference ---------------------------------------------------
// Reference receiver with an acquisition gate, from EN 300 706 and the last sentence of the statement.  A page
// transmission is its header plus the packets of its magazine up to the next header of that magazine (parallel mode,
// C11 = 0, throughout).  The gate is open exactly while the model's handler list contains a mask with TTX_PAGE.
//
//  * CLEAN page: header, all rows and the terminating header were transmitted with the gate open and the gate never
//    moved in between.  "Pages are acquired ... while a handler requests": it MUST be announced (one TTX_PAGE event,
//    this page number) when the terminating header is decoded and the cache must then show exactly: its own rows,
//    over the rows the receiver held for this page number before unless the header carried C4 (erase).
//  * page whose header was transmitted with the gate CLOSED: never acquired - no event, the cache keeps what it held
//    for this number, in particular nothing is built from the rows that follow after the gate opens.
//  * page whose header passed with the gate open and whose span (header .. the next header of its magazine that
//    passes with the gate open) contains a movement of the gate - also when the movement was made by a handler while
//    the header itself was being decoded: the statement says "exactly while", it does not say that a page must be
//    given up when a part of it was missed, nor that it must be kept.  Accepted: (a) the page is dropped (no event,
//    cache unchanged for this number) or (b) it is announced once and the cache shows exactly what passed the gate:
//    the rows of THIS transmission that were sent with the gate open, over the previous content / blank as above.
//    Never accepted: a row sent while the gate was closed, a row of another page (the rows of a page whose header
//    was missed in the gap arrive in the same magazine after the gate opens), a lost row that did pass the gate.
//  The observed alternative of an uncertain page becomes the reference content for the next transmission.
//  * with the gate closed nothing is announced and the cache does not change (audit of every page number
//    transmitted, at the end of the run).
enum { EXP_NONE = 0, EXP_MUST, EXP_MAY };
enum { kRowsCompared = 9 };  // this world transmits rows 1-9 only (the probe pages 1-3); formatting all 25 rows costs throughput
struct HdrEval { int kind = EXP_NONE, c = -1, orphan = -1, flips0 = 0; bool en = false; St::Image exp_new; };

static void check_ttx_events() {
  St& s = *g;
  int kind = s.exp_kind, pgno = s.exp_pgno;
  s.exp_kind = EXP_NONE; s.exp_seen = 0;
  if (s.ctx->failed) return;
  for (auto& e : s.ttx_ev) {
    s.ctx->log("ttx event %x.%x", e.first, e.second);
    if (kind != EXP_NONE && e.first == pgno && e.second == 0) { s.exp_seen++; continue; }
    if (!s.ttx_on && s.ttx_ev.size() == 1 && kind == EXP_NONE)
      s.ctx->fail("oracle:ttx-acquired-without-handler", "VBI_EVENT_TTX_PAGE %x.%x raised while no handler requests TTX_PAGE", e.first, e.second);
    else
      s.ctx->fail("oracle:ttx-page-spurious", "VBI_EVENT_TTX_PAGE %x.%x raised: no transmission of this page ended here that passed while a handler requested TTX_PAGE (%s)",
                  e.first, e.second, kind == EXP_NONE ? "none could end here" : "another page ended here");
    return;
  }
  if (s.exp_seen > 1) { s.ctx->fail("oracle:ttx-page-twice", "page %x announced %d times for one transmission", pgno, s.exp_seen); return; }
  if (kind == EXP_MUST && s.exp_seen == 0)
    s.ctx->fail("oracle:ttx-not-acquired", "page %x: header, rows and terminating header all transmitted while a handler requested TTX_PAGE, the set of requesters unchanged "
                "in between: no VBI_EVENT_TTX_PAGE", pgno);
}

// does the cache show `want` for this page number (rows 1-9 compared as text)?  On a difference: class and detail.
static bool cache_shows(int pgno, const St::Image& want, std::string& cls, std::string& why) {
  St& s = *g;
  vbi_page vp; vbi_bool ok;
  budget_begin("vbi_fetch_vt_page", 20000000);
  { SutScope ss; ok = vbi_fetch_vt_page(s.dec, &vp, pgno, VBI_ANY_SUBNO, VBI_WST_LEVEL_1, kRowsCompared + 1, FALSE); }
  budget_end();
  s.content_checks++;
  char b[400];
  if (!ok) {
    if (!want.have) return true;
    cls = "oracle:ttx-not-acquired"; why = "not in the cache"; return false;
  }
  bool good = true;
  if (!want.have) { good = false; cls = "oracle:ttx-cache-spurious"; why = "in the cache although no transmission of it passed while a handler requested TTX_PAGE"; }
  for (int y = 1; y <= kRowsCompared && good; y++) {
    char shown[41], exp[41]; bool same = true;
    for (int col = 0; col < 40; col++) {
      unsigned u = vp.text[y * vp.columns + col].unicode;
      unsigned w = want.have_row[y] ? (want.row[y][col] & 0x7Fu) : 0x20u;
      shown[col] = (u >= 0x20 && u < 0x7F) ? (char)u : '?'; exp[col] = (char)w;
      if (u != w) same = false;
    }
    shown[40] = exp[40] = 0;
    if (same) continue;
    good = false;
    // whose row is it?
    const char* origin = "text never transmitted in this form";
    cls = "oracle:ttx-page-content";
    bool blank = true; for (int col = 0; col < 40; col++) if (shown[col] != ' ') blank = false;
    if (blank) { cls = "oracle:ttx-row-lost"; origin = "blank"; }
    else for (auto& t : s.txs) {
      bool hit = false;
      for (auto& r : t.rows) {
        if (memcmp(r.c, shown, 40) != 0) continue;
        hit = true;
        if (t.pgno != pgno) { cls = "oracle:ttx-foreign-row"; origin = "a row transmitted as part of ANOTHER page"; }
        else if (!r.en || !t.hdr_en) { cls = "oracle:ttx-row-from-gap"; origin = !r.en ? "a row transmitted while no handler requested TTX_PAGE" : "a row of a transmission whose header passed while no handler requested TTX_PAGE"; }
        else { cls = "oracle:ttx-row-stale"; origin = "a row of another transmission of this page"; }
        snprintf(b, sizeof b, " [page %x transmission #%d row %d]", t.pgno, t.serial, r.y);
        break;
      }
      if (hit) { why = b; break; }
    }
    std::string tail = why;
    snprintf(b, sizeof b, "row %d shows \"%s\" (%s%s), the reference receiver holds \"%s\"", y, shown, origin, tail.c_str(), exp);
    why = b;
  }
  { SutScope ss; vbi_unref_page(&vp); }
  return good;
}

static HdrEval model_header_pre(int mag) {
  St& s = *g;
  int m = mag & 7;
  HdrEval e; e.en = s.ttx_on; e.flips0 = s.ttx_flips;
  if (e.en && s.cand[m] >= 0) {
    const St::TxPage& c = s.txs[(size_t)s.cand[m]];
    bool clean = !c.hdr_flip && c.flips_at_hdr == s.ttx_flips;
    e.c = s.cand[m]; e.kind = clean ? EXP_MUST : EXP_MAY;
    auto it = s.stored.find(c.pgno);
    if (!c.erase && it != s.stored.end() && it->second.have) e.exp_new = it->second;
    e.exp_new.have = true;
    for (auto& r : c.rows) if (r.en) { e.exp_new.have_row[r.y] = true; memcpy(e.exp_new.row[r.y], r.c, 40); }
    if (s.on_air[m] != s.cand[m]) { s.pages_zombie++; s.ctx->count("ttx_page_terminating_header_in_gap"); }
    s.exp_kind = e.kind; s.exp_pgno = c.pgno;
  }
  if (s.on_air[m] >= 0 && s.on_air[m] != e.c) e.orphan = s.on_air[m];  // the page on air is not one the receiver got the header of
  return e;
}

static void model_header_post(const HdrEval& e, int mag, int pg, bool erase) {
  St& s = *g;
  int m = mag & 7;
  if (s.ctx->failed) return;
  int seen = s.exp_seen;  // left by check_ttx_events()
  std::string cls, why;
  if (e.kind != EXP_NONE) {
    const St::TxPage& c = s.txs[(size_t)e.c];
    St::Image old; { auto it = s.stored.find(c.pgno); if (it != s.stored.end()) old = it->second; }
    bool st = seen == 1;
    if (e.kind == EXP_MUST) s.pages_must++; else { s.pages_may++; if (st) s.pages_may_stored++; }
    if (!cache_shows(c.pgno, st ? e.exp_new : old, cls, why)) {
      s.ctx->fail(cls.c_str(), "page %x (transmission #%d, %s, %s): %s", c.pgno, c.serial,
                  e.kind == EXP_MUST ? "wholly transmitted while a handler requested TTX_PAGE" : "the set of TTX_PAGE requesters changed during its transmission",
                  st ? "announced" : "not announced", why.c_str());
      return;
    }
    if (st) s.stored[c.pgno] = e.exp_new;
    s.ctx->log("ttx page %x #%d %s %s", c.pgno, c.serial, e.kind == EXP_MUST ? "must" : "may", st ? "stored" : "dropped");
  }
  if (e.orphan >= 0 && e.en) {  // (with the gate closed: no event may be raised - checked - and the audit at the end covers the cache)
    const St::TxPage& o = s.txs[(size_t)e.orphan];
    if (e.kind == EXP_NONE || o.pgno != s.txs[(size_t)e.c].pgno) {
      St::Image old; { auto it = s.stored.find(o.pgno); if (it != s.stored.end()) old = it->second; }
      if (!cache_shows(o.pgno, old, cls, why)) {
        s.ctx->fail(cls == "oracle:ttx-not-acquired" ? "oracle:ttx-page-content" : cls.c_str(), "page %x (transmission #%d, its header passed while no handler requested TTX_PAGE) ended: %s", o.pgno, o.serial, why.c_str());
        return;
      }
    }
  }
  if (pg == 0xFF) {  // time filling header: terminates, opens nothing
    s.on_air[m] = -1;
    if (e.en) s.cand[m] = -1;
    return;
  }
  St::TxPage n; n.pgno = mag * 256 + pg; n.serial = (int)s.txs.size(); n.erase = erase;
  n.hdr_en = e.en; n.hdr_flip = s.ttx_flips != e.flips0; n.flips_at_hdr = s.ttx_flips;
  if (!e.en) { s.pages_hdr_in_gap++; }
  s.sent_pgnos.insert(n.pgno);
  s.txs.push_back(n);
  s.on_air[m] = n.serial;
  // while the gate is closed the receiver does not learn of this header: the page it was assembling, if any, stays
  // its candidate (an uncertain one) until the next header of the magazine that passes
  if (e.en) s.cand[m] = n.serial;
}

static void model_row(int mag, int y, const uint8_t chars[40]) {
  St& s = *g;
  int m = mag & 7;
  if (s.on_air[m] < 0 || y < 1 || y > kRowsCompared) return;  // rows behind a time filling header belong to no page
  St::TxRow r; r.y = y; r.en = s.ttx_on; memcpy(r.c, chars, 40);
  if (!r.en) s.rows_in_gap++;
  s.txs[(size_t)s.on_air[m]].rows.push_back(r);
}

static void decode_frame(std::vector<vbi_sliced>& fr);
static vbi_sliced sl_ttx(const uint8_t b[42], int line);

// one header packet = one frame (a handler may change the registrations while it is decoded)
static void send_header(int mag, int pg, bool erase, int subcode) {
  St& s = *g;
  if (s.ctx->failed) return;
  HdrEval e = model_header_pre(mag);
  s.ctx->log("tx header %x erase=%d model ttx=%d expect=%d", mag * 256 + pg, erase, s.ttx_on, e.kind);
  uint8_t text[32]; header_text(mag * 256 + pg, text);
  ttx::Packet h = ttx::header(mag, pg, subcode, erase ? ttx::C4_ERASE : 0, text);
  std::vector<vbi_sliced> fr; fr.push_back(sl_ttx(h.b, 7));
  decode_frame(fr);
  model_header_post(e, mag, pg, erase);
}
static void send_row(int mag, int y, const uint8_t chars[40]) {
  St& s = *g;
  if (s.ctx->failed) return;
  model_row(mag, y, chars);
  s.ctx->log("tx row %d/%d model ttx=%d", mag, y, s.ttx_on);
  ttx::Packet rw = ttx::row(mag, y, chars);
  std::vector<vbi_sliced> fr; fr.push_back(sl_ttx(rw.b, 7 + y));
  decode_frame(fr);
}

// the continuous transmission: the next packet of a carousel of `spages` pages in each of `nsm` magazines.  Content is
// keyed by (stream seed, magazine, ordinal of the page in its magazine), the interleaving of the magazines by the
// packet ordinal: deleting a "ttx" op shortens the transmission, it does not reshuffle it.
static void stream_step() {
  St& s = *g;
  uint64_t h = hash_mix(s.sseed, s.sstep++);
  int m = s.smag[h % (uint64_t)s.nsm], mag = m ? m : 8;
  St::StreamMag& sm = s.sm[m];
  s.stream_packets++;
  if (sm.my_tx < 0 || s.on_air[m] != sm.my_tx || sm.pending.empty()) {
    // page complete (or displaced by a probe page of the other party in this magazine): next header
    uint64_t k = hash_mix(s.sseed ^ 0x5EEDu, (uint64_t)m * 1000003u + (uint64_t)sm.count++);
    if (sm.my_tx >= 0 && (k & 7) == 0) {  // a time filling header now and then
      s.ctx->count("stream_filler");
      send_header(mag, 0xFF, false, 0x3F7F);
      sm.my_tx = -1;
      return;
    }
    sm.pos = (sm.pos + 1 + ((((k >> 3) & 3) == 0 && s.spages > 2) ? 1 : 0)) % s.spages;  // never the same number twice in a row
    bool erase = ((k >> 5) % 3) == 0;
    int nrows = (int)((k >> 8) % (uint64_t)(s.srows + 1));
    bool used[25] = {false};
    sm.pending.clear();
    for (int i = 0; i < nrows; i++) used[1 + (hash_mix(k, (uint64_t)i) % 9)] = true;  // a few of rows 1-9: transmissions overlap
    for (int y = 1; y <= 9; y++) if (used[y]) sm.pending.push_back(y);
    send_header(mag, 0x90 + sm.pos, erase, 0);
    sm.my_tx = s.on_air[m];
    return;
  }
  int y = sm.pending.front(); sm.pending.erase(sm.pending.begin());
  const St::TxPage& t = s.txs[(size_t)sm.my_tx];
  char txt[64]; uint8_t chars[40];
  snprintf(txt, sizeof txt, "S%03X T%04d R%02d ", t.pgno, t.serial, y);
  size_t n = strlen(txt);
  for (size_t i = 0; i < 40; i++) chars[i] = (uint8_t)(i < n ? txt[i] : 'A' + (t.serial + (int)i) % 26);
  send_row(mag, y, chars);
}

static void decode_frame(std::vector<vbi_sliced>& fr) {
  St& s = *g;
  if (s.ctx->failed) { fr.clear(); return; }
  s.ts += 0.04;
  for (auto& x : fr) {
    if (x.id == VBI_SLICED_CAPTION_525) s.ctx->log("frame cc line=%u %02x %02x", x.line, x.data[0], x.data[1]);
    else s.ctx->log("frame id=%x line=%u", x.id, x.line);
  }
  // exact-size heap copy so that ASan sees reads past the last line
  vbi_sliced* heap = fr.empty() ? nullptr : new vbi_sliced[fr.size()];
  for (size_t i = 0; i < fr.size(); i++) heap[i] = fr[i];
  budget_begin("vbi_decode", 20000000);
  s.ttx_ev.clear();
  s.in_decode = true;
  { SutScope ss; vbi_decode(s.dec, heap, (int)fr.size(), s.ts); }
  s.in_decode = false;
  budget_end();
  delete[] heap;
  fr.clear();
  check_ttx_events();
}
static vbi_sliced sl_ttx(const uint8_t b[42], int line) {
  vbi_sliced x; memset(&x, 0, sizeof x); x.id = VBI_SLICED_TELETEXT_B; x.line = (uint32_t)line; memcpy(x.data, b, 42); return x;
}
static vbi_sliced sl_cc(int line, int b0, int b1) {
  vbi_sliced x; memset(&x, 0, sizeof x); x.id = VBI_SLICED_CAPTION_525; x.line = (uint32_t)line;
  x.data[0] = tx::odd_parity((uint8_t)b0); x.data[1] = tx::odd_parity((uint8_t)b1); return x;
}
static void packet_830(uint8_t b[42], int designation) {
  memset(b, 0, 42);
  b[0] = tx::ham84(0);       // magazine 8, packet 30: Y bit 0 = 0
  b[1] = tx::ham84(30 >> 1);
  b[2] = tx::ham84((unsigned)designation);
  for (int i = 3; i <= 8; i++) b[i] = tx::ham84(0);  // initial page 8 00
  for (int i = 22; i < 42; i++) b[i] = tx::odd_parity((uint8_t)("ZSIM STATUS DISPLAY  "[i - 22]));
}

static const unsigned CNI_VPS = 0x0AC1, CNI_8301 = 0x4301;  // one station for the whole run: no channel switch

struct C11 : World {
  const char* name() const override { return "c11"; }
  const char* property() const override { return "C11"; }

  static int gen_mask(Rng& r, const int* hot, int nhot, bool stream = false) {
    if (stream) {
      // the last clause divides the handlers into those that request TTX_PAGE and those that do not: make both kinds
      // common, so that the union over TTX_PAGE comes and goes beside consumers of every other service
      static const int other[] = {VBI_EVENT_CAPTION, VBI_EVENT_NETWORK, VBI_EVENT_TRIGGER, VBI_EVENT_ASPECT, VBI_EVENT_PROG_INFO,
                                  VBI_EVENT_NETWORK_ID, VBI_EVENT_LOCAL_TIME, VBI_EVENT_PROG_ID};
      unsigned c = (unsigned)r.below(100);
      if (c < 14) return VBI_EVENT_TTX_PAGE;
      if (c < 28) { int m = 0, n = 1 + (int)r.below(3); for (int i = 0; i < n; i++) m |= other[r.below(8)]; return m; }
    }
    static const int bits[] = {VBI_EVENT_CLOSE, VBI_EVENT_TTX_PAGE, VBI_EVENT_CAPTION, VBI_EVENT_NETWORK, VBI_EVENT_TRIGGER, 0x20, VBI_EVENT_ASPECT,
                               VBI_EVENT_PROG_INFO, VBI_EVENT_NETWORK_ID, 0x200, VBI_EVENT_LOCAL_TIME, VBI_EVENT_PROG_ID};
    unsigned k = (unsigned)r.below(100);
    if (k < 5) return 0;
    if (k < 15) return -1;
    if (k < 35) return bits[r.below(12)];
    if (k < 75) { int m = 0; for (int i = 0; i < nhot; i++) if (r.chance(1, 2)) m |= 1 << hot[i]; return m ? m : 1 << hot[0]; }
    if (k < 92) { int m = 0; int n = 2 + (int)r.below(3); for (int i = 0; i < n; i++) m |= bits[r.below(12)]; return m; }
    return 0xFFF & ~bits[r.below(12)];
  }

  Plan generate(uint64_t seed, const std::string& tier) override {
    Plan p; p.world = name(); p.seed = seed;
    Rng r(seed, "plan");
    p.knobs["sched_seed"] = (int64_t)(r.next() >> 1);
    p.knobs["policy"] = (int64_t)r.below(3);
    p.knobs["pparam"] = (p.knobs["policy"] == 1) ? 40 + (int64_t)r.below(55) : (int64_t)r.below(4);
    int nh = 2 + (int)r.below(5);
    p.knobs["handlers"] = nh;
    p.knobs["layout"] = (int64_t)r.below(4);
    int tasks = r.chance(1, 3) ? 2 : 1;
    p.knobs["tasks"] = tasks;
    p.knobs["cc_style"] = (int64_t)r.below(4);
    // about half of the runs carry the continuous Teletext transmission ("ttx" ops)
    bool stream = r.chance(1, 2);
    if (stream) {
      p.knobs["stream"] = 1 + (int64_t)(r.next() >> 2);
      int nm = 1 + (int)r.below(3); int64_t mags = 0;
      for (int i = 0; i < nm; i++) mags |= (int64_t)1 << r.below(8);  // bit m = magazine m (0 = magazine 8); 1 and 2 are shared with the probe pages
      p.knobs["smags"] = mags;
      p.knobs["spages"] = 2 + (int64_t)r.below(3);
      p.knobs["srows"] = 1 + (int64_t)r.below(4);
    }
    bool scripted = r.chance(2, 3);  // a third of the runs: no re-entrancy at all (plain histories)
    unsigned enabled = (unsigned)r.below(1u << A_N); if (!enabled) enabled = 1u << r.below(A_N);
    // event types of this run: a few "hot" bits so that several handlers wait for the same event
    int hot[4]; int nhot = 1 + (int)r.below(4);
    static const int feedbits[] = {1, 2, 3, 4, 6, 7, 8, 10, 11};  // TTX_PAGE CAPTION NETWORK TRIGGER ASPECT PROG_INFO NETWORK_ID LOCAL_TIME PROG_ID
    for (int i = 0; i < nhot; i++) hot[i] = r.chance(2, 3) ? feedbits[r.below(9)] : (int)r.below(12);
    if (stream) hot[0] = 1;  // TTX_PAGE
    auto mk = [&](int task, const char* kind, std::vector<int64_t> a) { Op o; o.task = task; o.kind = kind; o.a = a; p.ops.push_back(o); };
    // scripts first (global)
    if (scripted) {
      int ns = 1 + (int)r.below(8);
      for (int i = 0; i < ns; i++) {
        int action; do action = (int)r.below(A_N); while (!(enabled >> action & 1));
        unsigned t = (unsigned)r.below(100);
        int tsel = t < 25 ? T_SELF : t < 50 ? T_NEXT : t < 65 ? T_PREV : t < 70 ? T_FIRST : t < 75 ? T_LAST : T_ID0 + (int)r.below((uint64_t)nh);
        int nth = (int)r.below(3);
        int period = r.chance(1, 2) ? 0 : 1 + (int)r.below(3);
        mk(0, "script", {(int64_t)r.below((uint64_t)nh), nth, period, action, tsel, gen_mask(r, hot, nhot, stream)});
      }
    }
    int ninit = 1 + (int)r.below((uint64_t)nh);
    for (int i = 0; i < ninit; i++) {
      int m = gen_mask(r, hot, nhot, stream); if (m == 0) m = 1 << hot[0];
      mk(0, r.chance(1, 8) ? "add" : "reg", {(int64_t)r.below((uint64_t)nh), m});
    }
    int n = tier == "thorough" ? 10 + (int)r.below(70) : 6 + (int)r.below(34);
    for (int i = 0; i < n; i++) {
      int task = tasks == 2 && r.chance(1, 3) ? 1 : 0;
      if (stream && r.chance(3, 10)) { mk(task, "ttx", {1 + (int64_t)r.below(12)}); continue; }
      unsigned k = (unsigned)r.below(100);
      if (k < 36) mk(task, "send", {hot[r.below((uint64_t)nhot)]});
      else if (k < 40) mk(task, "send", {(int64_t)r.below(12)});
      else if (k < 58) mk(task, "feed", {(int64_t)r.below(7), (int64_t)r.below(16)});
      else if (k < 70) mk(task, "page", {(int64_t)r.below(3)});
      else if (k < 84) mk(task, "reg", {(int64_t)r.below((uint64_t)nh), gen_mask(r, hot, nhot, stream)});
      else if (k < 91) mk(task, "unreg", {(int64_t)r.below((uint64_t)nh)});
      else if (k < 96) mk(task, "add", {(int64_t)r.below((uint64_t)nh), gen_mask(r, hot, nhot, stream)});
      else mk(task, "remove", {(int64_t)r.below((uint64_t)nh)});
    }
    return p;
  }

  // ---- feeds: real sliced data through vbi_decode(), one frame per call, a scheduling point between frames ----
  static void feed(int what, int v) {
    St& s = *g;
    std::vector<vbi_sliced> fr;
    // Line 21 carries one caption service at a time: the frames of a caption / XDS feed are not interleaved with
    // the other task's (a garbled caption stream is C08's subject, not this property's); everything else is.
    bool atomic = what <= 1 || what == 6;
    auto frame = [&](const vbi_sliced& x) { if (s.ctx->failed) return; fr.push_back(x); decode_frame(fr); if (!atomic) s.sched->yield(); };
    switch (what) {
      case 0: {  // caption words on field 1
        static const char* words[] = {"HELLO ", "EVENTS", "ZSIM  ", "AB"};
        const char* w = words[v & 3];
        int style = s.cc_style;  // one caption mode per run (mode changes are C08's subject)
        int ctl = style == 0 ? 0x25 : style == 1 ? 0x20 : style == 2 ? 0x29 : 0x26;  // RU2, RCL, RDC, RU3
        frame(sl_cc(21, 0x14, ctl)); frame(sl_cc(21, 0x14, ctl));
        for (size_t i = 0; w[i] && w[i + 1]; i += 2) frame(sl_cc(21, w[i], w[i + 1]));
        int end = style == 1 ? 0x2F : style == 2 ? 0x2C : 0x2D;  // EOC, EDM, CR
        frame(sl_cc(21, 0x14, end)); frame(sl_cc(21, 0x14, end));
        break;
      }
      case 1: {  // XDS current class, programme title, twice
        static const char* titles[] = {"NEWS", "MOVIE NIGHT", "ZSIM11", "Q"};
        std::string t = titles[v & 3];
        for (int rep = 0; rep < 2; rep++) {
          unsigned sum = 0x01 + 0x03;
          frame(sl_cc(284, 0x01, 0x03));
          for (size_t i = 0; i < t.size(); i += 2) {
            int a = t[i], b = i + 1 < t.size() ? t[i + 1] : 0;
            sum += (unsigned)(a + b);
            frame(sl_cc(284, a, b));
          }
          int ck = (int)((0x80 - ((sum + 0x0F) & 0x7F)) & 0x7F);
          frame(sl_cc(284, 0x0F, ck));
        }
        break;
      }
      case 2: {  // VPS, twice
        vbi_program_id pid; memset(&pid, 0, sizeof pid);
        pid.cni = CNI_VPS; pid.pil = (unsigned)(((1 + (v & 7)) << 15) | (3 << 11) | (20 << 6) | 15); pid.pty = (unsigned)(v & 0x0F);
        vbi_sliced x; memset(&x, 0, sizeof x); x.id = VBI_SLICED_VPS; x.line = 16;
        if (!vbi_encode_vps_pdc(x.data, &pid)) { s.ctx->fail("harness:vps", "vbi_encode_vps_pdc refused"); return; }
        frame(x); frame(x); if (v & 8) frame(x);
        break;
      }
      case 3: {  // 8/30 format 1, twice
        uint8_t b[42]; packet_830(b, v & 1);
        b[9] = tx::rev8((uint8_t)(CNI_8301 >> 8)); b[10] = tx::rev8((uint8_t)(CNI_8301 & 0xFF));
        b[11] = 0x04;
        int mjd = 58000 + (v & 15), d[5]; for (int i = 0; i < 5; i++) { d[i] = mjd % 10; mjd /= 10; }
        b[12] = (uint8_t)(d[4] + 1); b[13] = (uint8_t)(((d[3] + 1) << 4) | (d[2] + 1)); b[14] = (uint8_t)(((d[1] + 1) << 4) | (d[0] + 1));
        b[15] = (uint8_t)(((1 + 1) << 4) | (2 + 1)); b[16] = (uint8_t)(((3 + 1) << 4) | (4 + 1)); b[17] = (uint8_t)(((0 + 1) << 4) | ((v & 7) + 1));
        frame(sl_ttx(b, 9)); frame(sl_ttx(b, 9));
        break;
      }
      case 4: {  // 8/30 format 2, twice
        uint8_t b[42]; packet_830(b, 2 + (v & 1));
        b[9] = tx::ham84(0);
        int B[13] = {0};
        B[7] = 0x00; B[8] = 0xC0 | (v & 0x0F); B[9] = 0x55; B[10] = 0x02 | ((v & 3) << 2); B[11] = 0x81; B[12] = v & 0x0F;
        for (int i = 7; i <= 12; i++) { unsigned t = tx::rev8((uint8_t)B[i]); b[i * 2 - 4] = tx::ham84(t & 15); b[i * 2 - 3] = tx::ham84(t >> 4); }
        frame(sl_ttx(b, 10)); frame(sl_ttx(b, 10));
        break;
      }
      case 6: {  // ITV trigger in caption text channel T2 (decoded only while a TRIGGER handler is registered): fires at once
        // v & 8: with a [time:] attribute a few seconds ahead of the decoder's clock, the trigger is stored and fired by a later
        // vbi_decode() (vbi_deferred_trigger); the date is local time (mktime), the world assumes TZ=UTC - elsewhere the
        // trigger fires at once or never, which the oracle does not care about.  Month "00": parse_date() in trigger.c
        // hands the month to mktime() without subtracting one, so "00" is January there.
        char url[48];
        if (v & 8) {
          int at = (int)s.ts + 1;  // fires within the next 25 frames
          snprintf(url, sizeof url, "<http://zs.tv/%c>[time:19700001T%02d%02d%02d]", 'a' + (v & 7), at / 3600, (at / 60) % 60, at % 60);
          if (strlen(url) & 1) { s.ctx->fail("harness:url", "odd trigger length"); return; }
        } else snprintf(url, sizeof url, "<http://zs.tv/%c>", 'a' + (v & 7));
        frame(sl_cc(21, 0x1C, 0x2A)); frame(sl_cc(21, 0x1C, 0x2A));  // text restart, channel T2
        for (size_t i = 0; url[i] && url[i + 1]; i += 2) frame(sl_cc(21, url[i], url[i + 1]));
        s.trigger_cr = true;
        frame(sl_cc(21, 0x1C, 0x2D)); frame(sl_cc(21, 0x1C, 0x2D));  // carriage return ends the trigger string
        s.trigger_cr = false;
        break;
      }
      default: {  // WSS 625: five identical words
        int fmt = v & 7;
        int par = (__builtin_popcount((unsigned)fmt) & 1) ? 0 : 1;  // odd parity over the low four bits
        vbi_sliced x; memset(&x, 0, sizeof x); x.id = VBI_SLICED_WSS_625; x.line = 23;
        x.data[0] = (uint8_t)(fmt | (par << 3) | ((v & 8) ? 0x10 : 0)); x.data[1] = 0;
        for (int i = 0; i < 5; i++) frame(x);
        break;
      }
    }
  }

  // one probe page; the acquisition clause is decided for it iff the model's "some handler requests TTX_PAGE"
  // did not change while it was on air
  static void page(int task, int nrows) {
    St& s = *g;
    int k = s.page_ctr[task]++;
    if (k > 89) { s.ctx->count("probe_skipped"); return; }  // page numbers x90-x99 belong to the continuous transmission
    int mag = 1 + task, pg = to_bcd(k), pgno = mag * 256 + pg;
    bool on0 = s.ttx_on; int flips0 = s.ttx_flips;
    s.ctx->log("probe page %x model ttx=%d", pgno, on0);
    // every packet also passes through the acquisition reference (send_header / model_row): the continuous
    // transmission of the other party may use this magazine too and then cuts the probe page short
    std::vector<vbi_sliced> fr;
    send_header(mag, pg, false, 0); s.sched->yield();
    if (s.ctx->failed) return;
    for (int y = 1; y <= 1 + nrows && !s.ctx->failed; y++) {  // the rows in one frame: no event can be raised between them
      uint8_t chars[40]; memset(chars, 0x20, 40);
      char t[41]; snprintf(t, sizeof t, "PROBE %03X ROW %02d", pgno, y); memcpy(chars, t, strlen(t));
      model_row(mag, y, chars);
      ttx::Packet rw = ttx::row(mag, y, chars);
      fr.push_back(sl_ttx(rw.b, 7 + y));
    }
    decode_frame(fr); s.sched->yield();
    send_header(mag, 0xFF, false, 0x3F7F);  // time filling header terminates the page
    if (s.ctx->failed) return;
    int cached; { SutScope ss; cached = vbi_is_cached(s.dec, pgno, VBI_ANY_SUBNO); }
    vbi_page vp; vbi_bool fetched;
    budget_begin("vbi_fetch_vt_page", 20000000);
    { SutScope ss; fetched = vbi_fetch_vt_page(s.dec, &vp, pgno, VBI_ANY_SUBNO, VBI_WST_LEVEL_1, 25, FALSE); }
    budget_end();
    if (fetched) { SutScope ss; vbi_unref_page(&vp); }
    s.ctx->log("probe page %x cached=%d fetched=%d flips=%d", pgno, cached != 0, fetched != 0, s.ttx_flips - flips0);
    if (s.ttx_flips != flips0) { s.ctx->count("probe_undetermined"); s.sched->yield(); return; }
    s.probes_checked++;
    s.ctx->count(on0 ? "probe_ttx_on" : "probe_ttx_off");
    if ((cached != 0) != on0 || (fetched != 0) != on0)
      s.ctx->fail(on0 ? "oracle:ttx-not-acquired" : "oracle:ttx-acquired-without-handler",
                  "page %x transmitted while %s handler requested TTX_PAGE: vbi_is_cached=%d vbi_fetch_vt_page=%d", pgno, on0 ? "a" : "no", cached != 0, fetched != 0);
    s.sched->yield();
  }

  void run(const Plan& plan, RunCtx& ctx) override {
    static bool warmed = false;
    if (!warmed) {  // process-global one-time initialisation is not a per-decoder leak (iconv/gettext tables, libc time zone data)
      warmed = true;
      vbi_decoder* d = vbi_decoder_new(); vbi_decoder_delete(d);
      struct tm tm; memset(&tm, 0, sizeof tm); tm.tm_year = 70; tm.tm_mday = 1; tzset(); (void)mktime(&tm);
    }
    alloc_track_reset();
    St st; st.ctx = &ctx; g = &st;
    st.layout = (int)absmod(plan.knob("layout"), 4);
    st.nh = (int)absmod(plan.knob("handlers", NID) - 1, NID) + 1;
    int tasks = (int)absmod(plan.knob("tasks", 1) - 1, 2) + 1;
    st.cc_style = (int)absmod(plan.knob("cc_style"), 4);
    st.sseed = (uint64_t)plan.knob("stream");
    { int64_t mags = plan.knob("smags") & 0xFF; int n = 0;
      for (int m = 0; m < 8; m++) if (mags >> m & 1) st.smag[n++] = m;
      if (n) st.nsm = n; }  // none given: magazine 3
    st.spages = 2 + (int)absmod(plan.knob("spages", 2) - 2, 8);
    st.srows = 1 + (int)absmod(plan.knob("srows", 3) - 1, 8);
    Sched sched(ctx, (uint64_t)plan.knob("sched_seed", (int64_t)plan.seed), (Policy)absmod(plan.knob("policy"), 3), (int)plan.knob("pparam"));
    st.sched = &sched;
    { SutScope ss; st.dec = vbi_decoder_new(); }
    std::vector<std::vector<const Op*>> per((size_t)tasks);
    for (auto& op : plan.ops) {
      if (op.kind == "script") {
        Script sc;
        sc.id = (int)absmod(op.arg(0), st.nh); sc.nth = (int)absmod(op.arg(1), 64); sc.period = (int)absmod(op.arg(2), 8);
        sc.action = (int)absmod(op.arg(3), A_N); sc.tsel = (int)absmod(op.arg(4), T_ID0 + NID); sc.mask = (int)op.arg(5);
        st.scripts.push_back(sc);
      } else per[(size_t)absmod(op.task, tasks)].push_back(&op);
    }
    for (int t = 0; t < tasks; t++) {
      if (per[(size_t)t].empty()) continue;
      sched.spawn("task" + std::to_string(t), [&, t] {
        for (const Op* op : per[(size_t)t]) {
          if (ctx.failed) return;
          int id = (int)absmod(op->arg(0), st.nh);
          if (op->kind == "reg") do_register(id, (int)op->arg(1));
          else if (op->kind == "unreg") do_unregister(id);
          else if (op->kind == "add") { if (do_legacy_add(id, (int)op->arg(1)) >= 2) ctx.count("legacy_add_multi"); }
          else if (op->kind == "remove") { if (do_legacy_remove(id) >= 2) ctx.count("legacy_remove_multi"); }
          else if (op->kind == "send") {
            vbi_event ev; memset(&ev, 0, sizeof ev);
            ev.type = 1 << (int)absmod(op->arg(0), 12);
            ctx.log("api send type=%x", (unsigned)ev.type);
            budget_begin("vbi_send_event", 1000000);
            { SutScope ss; vbi_send_event(st.dec, &ev); }
            budget_end();
          } else if (op->kind == "feed") {
            ctx.log("api feed %d/%d", (int)absmod(op->arg(0), 7), (int)absmod(op->arg(1), 16));
            feed((int)absmod(op->arg(0), 7), (int)absmod(op->arg(1), 16));
          } else if (op->kind == "page") page(t, (int)absmod(op->arg(0), 3));
          else if (op->kind == "ttx") {
            int n = (int)absmod(op->arg(0), 17);
            ctx.log("api ttx %d", n);
            for (int i = 0; i < n && !ctx.failed; i++) { stream_step(); sched.yield(); }
          }
          sched.yield();
        }
      });
    }
    int rc = sched.run(2000000);
    if (rc == 2) ctx.fail("harness:budget", "scheduler budget exhausted");
    if (rc == 1) ctx.fail("harness:deadlock", "tasks blocked");
    ctx.state(sched.interleaving_hash());
    // audit: for every page number ever transmitted the cache holds what the gated reference receiver holds, no more
    if (!ctx.failed && rc == 0)
      for (int pgno : st.sent_pgnos) {
        St::Image img; { auto it = st.stored.find(pgno); if (it != st.stored.end()) img = it->second; }
        std::string cls, why;
        if (!cache_shows(pgno, img, cls, why)) {
          ctx.fail(cls == "oracle:ttx-not-acquired" ? "oracle:ttx-page-vanished" : cls.c_str(), "audit at the end of the run, page %x: %s", pgno, why.c_str());
          break;
        }
      }
    { SutScope ss; vbi_decoder_delete(st.dec); st.dec = nullptr; }
    // the trigger parser calls mktime(); glibc keeps one private copy of the time zone name which it re-allocates on
    // such calls: move that block out of the code under test's account
    { struct tm tm; memset(&tm, 0, sizeof tm); tm.tm_year = 70; tm.tm_mday = 1; (void)mktime(&tm); }
    if (!ctx.failed && alloc_track_available() && alloc_live_blocks() != 0)
      ctx.fail("leak", "%zu blocks (%zu bytes; sizes %s) still allocated after vbi_decoder_delete", alloc_live_blocks(), alloc_live_bytes(), alloc_live_summary().c_str());
    ctx.count("deliveries", st.deliveries);
    ctx.count("deliveries_multi", st.deliveries_multi);
    ctx.count("handler_calls", st.calls);
    ctx.count("cb_actions", st.cb_actions);
    ctx.count("ttx_flips", st.ttx_flips);
    ctx.count("probes_checked", st.probes_checked);
    ctx.count("stream_packets", st.stream_packets);
    ctx.count("ttx_pages_must", st.pages_must);
    ctx.count("ttx_pages_uncertain", st.pages_may);
    ctx.count("ttx_pages_uncertain_stored", st.pages_may_stored);
    ctx.count("ttx_pages_header_in_gap", st.pages_hdr_in_gap);
    ctx.count("ttx_rows_in_gap", st.rows_in_gap);
    ctx.count("ttx_content_checks", st.content_checks);
    ctx.nontrivial = st.deliveries_multi >= 2 && st.calls >= 5 && (st.cb_actions >= 1 || st.scripts.empty());
    ctx.sim_seconds = st.ts - 7000.0;
    g = nullptr;
  }
};
ZSIM_REGISTER_WORLD(C11)

}  // namespace

// The seam: every vbi_send_event() issued by another translation unit of the library (packet.c, caption.c,
// wss.c, trigger.c) or by this world passes through here.
extern "C" void __wrap_vbi_send_event(vbi_decoder* vbi, vbi_event* ev) {
  if (!g || g->ctx->failed || vbi != g->dec) { __real_vbi_send_event(vbi, ev); return; }
  bool nested;
  { HarnessScope hs;
    nested = g->in_delivery;
    if (nested) g->ctx->fail("harness:nested-raise", "vbi_send_event entered while a delivery is in progress");
    else delivery_begin(ev); }
  if (nested) return;  // the real function would dead-lock on event_mutex
  __real_vbi_send_event(vbi, ev);
  { HarnessScope hs; if (g) delivery_end(); }
}
