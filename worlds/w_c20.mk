LDFLAGS_w_c20 = $(SIMK_LDFLAGS) -Wl,--wrap=__asan_memcpy -Wl,--wrap=__asan_memmove -Wl,--wrap=__asan_memset -Wl,--wrap=vbi_caption_channel_switched
EXTRAOBJ_w_c20 = $(SIMK_OBJ) $(O)/simk/race.o
