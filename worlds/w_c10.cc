// C10 — the Teletext cache is a coherent, bounded, reference-safe page store.
//
// World: one vbi_decoder whose cache is driven through the internal-but-extern
// API (_vbi_cache_put_page, _vbi_cache_get_page, cache_page_ref/unref,
// _vbi_cache_foreach_page, _vbi_cache_add_network, cache_network_ref/unref,
// vbi_is_cached, vbi_cache_hi_subno, vbi_chsw_reset / vbi_channel_switched).
// Two tasks: the client issues the operation history, the holder keeps page
// references across the client's operations; the seeded scheduler decides who
// releases when.  memory_limit is poked through cache-priv.h at run start so
// that eviction really runs (the shipped 1 GiB never evicts).
//
// Oracle: a reference map written from the property statement
//   (network, page number, subpage key) -> most recently stored version,
// with an MRU order per page for wildcard lookups, reference counts, zombies.
// After EVERY call into the cache the real lists (networks, priority,
// referenced, 113 hash chains) are walked and reconciled with the model:
// eviction victims are not predicted (the statement does not say which page
// goes) but every disappearance must be justified (replaced by a store with the
// same key / memory pressure and not beyond need / network without references),
// and all counters and the memory accounting must be exact.
//
// The generator steers around nothing.  Four defects of cache.c found with this
// world (out/C10/fix-1..4.diff; replays in regress/C10 and out/C10) are probed
// by the shape_* counters: reuse of a victim block of another size, a victim
// collected twice by the two scans of a store, foreach without a page in a lap,
// and (oracle leniency strict_put=0) a store failing although room could be made.
//
// Search: a bounded-exhaustive prefix (all histories of depth 4 [quick] / 5
// [thorough] over a 14-symbol operation alphabet on 3 pages, enumerated in
// blocks of 64 histories; a run that is an "exhaustive block" executes one
// block, every history on a fresh decoder) plus random two-task histories.
#include <cstddef>
#include <cstdio>
#include <cstdlib>
#include <cstring>
#include <map>
#include <set>

#include "alloc.h"
#include "sim.h"

extern "C" {
#include "src/vbi.h"
#include "src/cache-priv.h"
}

using namespace sim;

namespace {

// ---- alphabets -------------------------------------------------------------
// 0x100 magazine start page (special priority); 0x171 = 0x100 + 113 shares its hash chain;
// 0x111 "magic" number; 0x1AB / 0x8FE hex pages (key = S1 digit); 0x1FF is not a page (must be refused)
static const int PG[] = {0x100, 0x171, 0x101, 0x111, 0x1AB, 0x8FE, 0x1FF};
static const int NPG = 7;
// 0/1/2/0x79 regular; 0x80, 0x0A not a subpage number; 0x1234 clock; 0x2330 clock in the window the code
// treats differently from its own comment; 0x11 collides with 0x01 under the hex-page key; 0x3F7F = "any"
static const int SUB[] = {0, 1, 2, 0x79, 0x80, 0x1234, 0x11, 0x59, 0x0A, 0x2330, 0x2400, 0x3F7F, 0x1201};
static const int NSUB = 13;
static const int MASKS[] = {-1, 0, 0xFF, 0x0F, 0x3F7F};
static const int NMASK = 5;
struct Fn { int function; unsigned x26, x28; const char* name; };
static const Fn FN[] = {
    {PAGE_FUNCTION_LOP, 0, 0, "lop"},     {PAGE_FUNCTION_LOP, 1, 0, "enh_lop"},  {PAGE_FUNCTION_LOP, 0, 1, "ext_lop"},
    {PAGE_FUNCTION_UNKNOWN, 0, 0, "unk"}, {PAGE_FUNCTION_POP, 0, 0, "pop"},      {PAGE_FUNCTION_GPOP, 0, 0, "gpop"},
    {PAGE_FUNCTION_DRCS, 0, 0, "drcs"},   {PAGE_FUNCTION_GDRCS, 0, 0, "gdrcs"},  {PAGE_FUNCTION_AIT, 0, 0, "ait"},
    {PAGE_FUNCTION_DATA, 0, 0, "data"},   {PAGE_FUNCTION_UNKNOWN, 0, 0x10, "unk_ext"}};
static const int NFN = 11;
// 1564 = one plain page, 3128 = two, 4692 = three (a cache that is exactly full: the block of the single victim is
// reused); the others leave a remainder.  New values go before the last one (replay files name limits by index).
static const long LIMITS[] = {1000, 1564, 1600, 2500, 3200, 4600, 6500, 9100, 16000, 65536, 1 << 20, 3128, 4692, 1 << 30};
static const int NLIMIT = 14;

static const size_t HDR_FROM = offsetof(cache_page, function);
static const size_t HDR_TO = offsetof(cache_page, x28_designations) + sizeof(unsigned int);
static const size_t DATA_FROM = offsetof(cache_page, data);

static int64_t absmod(int64_t v, int64_t m) { if (m <= 0) return 0; v %= m; return v < 0 ? v + m : v; }

// ---- subpage key rules (EN 300 706 A.1 as the property's "subpage key") -----
static bool is_bcd(unsigned v) { for (int k = 0; k < 8; k++) if (((v >> (4 * k)) & 15) > 9) return false; return true; }
static bool digits_gt(unsigned v, unsigned max) { for (int k = 0; k < 8; k++) if (((v >> (4 * k)) & 15) > ((max >> (4 * k)) & 15)) return true; return false; }
struct Key { bool refused; int mask; int stored; int stored_alt; };
static Key key_rule(int pgno, int subno, bool clock_type) {
  Key k{false, 0, 0, -1};
  if ((pgno & 0xFF) == 0xFF) { k.refused = true; return k; }
  if (is_bcd((unsigned)pgno)) {
    if (subno == 0) return k;                                   // one version
    if (clock_type || subno >= 0x100) {                        // clock page: one version, subno = hh:mm
      bool valid = !digits_gt((unsigned)subno, 0x2959) && subno <= 0x2359;
      k.stored = valid ? subno : 0;
      // 23:01 ... 23:59 is a valid time (the code's own consistency comment says 0x0000 ... 0x2359) but the
      // store rule treats it as invalid and files the page under 0.  The statement does not define the
      // normalisation, so both are accepted.
      if (valid && subno > 0x2300) k.stored_alt = 0;
      return k;
    }
    if (digits_gt((unsigned)subno, 0x79)) return k;             // not a subpage number: rolling page, one version
    k.mask = 0xFF; k.stored = subno; return k;                   // page with subpages: all versions
  }
  k.mask = 0x0F; k.stored = subno; return k;                     // hex page: S1 is the subpage key
}

enum { LIVE = 0, ZOMBIE = 1, DEAD = 2 };
struct Entry { int id, net, pgno, subno, size, refs, st; const cache_page* ptr; std::string img; };
struct NetM { int id; cache_network* ptr; int refs; bool dead; std::map<int, int> clock; std::map<int, int> evermax; std::set<int> nonstd; };

struct Sim10 {
  RunCtx& ctx;
  const Plan& plan;
  vbi_decoder* dec = nullptr;
  vbi_cache* ca = nullptr;
  long limit = 1 << 30;
  std::vector<Entry> entries;
  std::vector<NetM> nets;
  std::map<const void*, int> by_ptr, net_by_ptr;  // lookup only, never iterated
  std::map<std::pair<int, int>, std::vector<int>> mru;  // (net, pgno) -> entry ids, most recent first
  std::vector<int> handles;                              // network references owned by the client (model net ids)
  std::vector<int> slots[2];                             // page references owned by client / holder (entry ids)
  int cur = -1;                                          // model id of the decoder's network
  int replaced_gone = 0;
  long evict_needed = -1;                                // settle(): memory the call had to make room for besides memory_used (-1: no eviction expected)
  long pre_victim = 0;                                   // settle(): size of a victim the operation already accounted for (its block was reused)
  int evict_free = -1;                                   // settle(): entry replaced by the store (its memory is reused, it is not an eviction victim)
  double ts = 100.0;
  int64_t puts_ok = 0, hits = 0, steps = 0;
  Fnv abst;

  Sim10(RunCtx& c, const Plan& p) : ctx(c), plan(p) {}

  // ------------------------------------------------------------ lifecycle --
  void open() {
    entries.clear(); nets.clear(); by_ptr.clear(); net_by_ptr.clear(); mru.clear(); handles.clear(); slots[0].clear(); slots[1].clear();
    budget_begin("vbi_decoder_new", 50000000);
    { SutScope ss; dec = vbi_decoder_new(); }
    budget_end();
    if (!dec) { ctx.fail("harness:new", "vbi_decoder_new failed"); return; }
    ca = dec->ca;
    limit = LIMITS[absmod(plan.knob("limit_idx", NLIMIT - 1), NLIMIT)];
    ca->memory_limit = (unsigned long)limit;  // the capacity knob (no setter exists in 0.2)
    NetM n; n.id = 0; n.ptr = dec->cn; n.refs = 1; n.dead = false;
    nets.push_back(n); net_by_ptr[n.ptr] = 0; cur = 0;
    settle("open", {}, false, false);
  }

  void close() {
    if (!dec) return;
    // release everything the two parties still hold; order is a knob
    bool rev = plan.knob("release_rev") & 1;
    for (int t = 0; t < 2 && !ctx.failed; t++) {
      int who = (plan.knob("release_holder_first") & 1) ? 1 - t : t;
      while (!slots[who].empty() && !ctx.failed) unref_slot(who, rev ? (int)slots[who].size() - 1 : 0);
    }
    while (!handles.empty() && !ctx.failed) net_unref((int)handles.size() - 1);
    if (!ctx.failed) {
      for (auto& e : entries) if (e.st == LIVE && !check_content(e)) { ctx.fail("oracle:content", "page %x.%x (entry %d) differs from what was stored, found at teardown", e.pgno, e.subno, e.id); break; }
    }
    if (ctx.failed) { dec = nullptr; return; }  // state unknown: do not touch it further
    budget_begin("vbi_decoder_delete", 50000000);
    { SutScope ss; vbi_decoder_delete(dec); }
    budget_end();
    dec = nullptr; ca = nullptr;
    if (alloc_track_available() && alloc_live_blocks() != 0)
      ctx.fail("leak", "%zu blocks (%zu bytes; sizes %s) still allocated after all references were released and the decoder deleted", alloc_live_blocks(), alloc_live_bytes(), alloc_live_summary().c_str());
  }

  // ---------------------------------------------------------------- model --
  bool has_held(int net) { for (auto& e : entries) if (e.st != DEAD && e.net == net && e.refs > 0) return true; return false; }
  void mru_remove(Entry& e) { auto& v = mru[{e.net, e.pgno}]; for (size_t i = 0; i < v.size(); i++) if (v[i] == e.id) { v.erase(v.begin() + (long)i); break; } }
  void mru_front(Entry& e) { mru_remove(e); auto& v = mru[{e.net, e.pgno}]; v.insert(v.begin(), e.id); }
  void kill(Entry& e) { if (e.st == LIVE) mru_remove(e); e.st = DEAD; auto it = by_ptr.find(e.ptr); if (it != by_ptr.end() && it->second == e.id) by_ptr.erase(it); e.img.clear(); }
  int model_lookup(int net, int pgno, int subno, int mask, int* ncand = nullptr) {
    int first = -1, n = 0;
    auto it = mru.find({net, pgno});
    if (it == mru.end()) return -1;
    for (int id : it->second) { Entry& e = entries[(size_t)id]; if (e.st == LIVE && (e.subno & mask) == (subno & mask)) { if (first < 0) first = id; n++; } }
    if (ncand) *ncand = n;
    return first;
  }
  int resolve_net(int64_t h) { int64_t k = absmod(h, (int64_t)handles.size() + 1); return k == 0 ? cur : handles[(size_t)k - 1]; }
  bool check_content(const Entry& e) {
    const char* p = (const char*)e.ptr;
    size_t hl = HDR_TO - HDR_FROM;
    if (memcmp(p + HDR_FROM, e.img.data(), hl)) return false;
    return !memcmp(p + DATA_FROM, e.img.data() + hl, (size_t)e.size - DATA_FROM);
  }

  // ------------------------------------------------- walking the real lists --
  bool walk(const struct node* head, std::vector<const struct node*>& out, const char* what) {
    const struct node* n = head;
    for (size_t steps_ = 0;; steps_++) {
      const struct node* s = n->_succ;
      if (!s || s->_pred != n) { ctx.fail("oracle:list-corrupt", "list %s: successor's predecessor is not the node (element %zu)", what, steps_); return false; }
      if (s == head) return true;
      if (steps_ > 100000) { ctx.fail("oracle:list-corrupt", "list %s does not return to its head", what); return false; }
      out.push_back(s); n = s;
    }
  }

  struct RP { const cache_page* cp; bool pri; int hcount; int hidx; };

  // Reconcile the model with the real structure after one call into the cache and audit the bookkeeping.
  //  S            entries a store was entitled to replace (same network, page, subpage key)
  //  pressure     the call could not complete within the limit without evicting unreferenced pages
  //  must_replace the store succeeded: at least one member of S must be gone / unreachable now
  void settle(const char* op, const std::vector<int>& S, bool pressure, bool must_replace) {
    if (ctx.failed || !ca) return;
    steps++;
    auto inS = [&](int id) { for (int x : S) if (x == id) return true; return false; };
    long max_victim = pre_victim; int n_victims = pre_victim > 0 ? 1 : 0;
    pre_victim = 0;
    // ---- networks
    std::vector<const struct node*> nn;
    if (!walk(&ca->networks, nn, "networks")) return;
    std::map<const void*, int> real_net;
    for (size_t i = 0; i < nn.size(); i++) real_net[(const char*)nn[i] - offsetof(cache_network, node)] = (int)i;
    for (auto& n : nets) {
      if (n.dead || real_net.count(n.ptr)) continue;
      if (n.refs > 0 || has_held(n.id)) { ctx.fail("oracle:network-freed", "after %s: network %d is gone although %d references / held pages remain", op, n.id, n.refs); return; }
      n.dead = true; net_by_ptr.erase(n.ptr); ctx.count("net_deleted");
    }
    for (size_t i = 0; i < nn.size(); i++) {
      const cache_network* cn = (const cache_network*)((const char*)nn[i] - offsetof(cache_network, node));
      auto it = net_by_ptr.find(cn);
      if (it == net_by_ptr.end()) { ctx.fail("oracle:phantom-network", "after %s: the cache lists a network nobody added (position %zu)", op, i); return; }
      NetM& n = nets[(size_t)it->second];
      if ((int)cn->ref_count != n.refs) { ctx.fail("oracle:network-refcount", "after %s: network %d ref_count %u, references held %d", op, n.id, cn->ref_count, n.refs); return; }
      if (cn->cache != ca) { ctx.fail("oracle:network-cache", "after %s: network %d does not point to its cache", op, n.id); return; }
    }
    // ---- pages
    std::vector<RP> rp; std::map<const void*, size_t> rix;
    std::vector<const struct node*> ln;
    if (!walk(&ca->priority, ln, "priority")) return;
    size_t npri = ln.size();
    if (!walk(&ca->referenced, ln, "referenced")) return;
    for (size_t i = 0; i < ln.size(); i++) {
      const cache_page* cp = (const cache_page*)((const char*)ln[i] - offsetof(cache_page, pri_node));
      if (rix.count(cp)) { ctx.fail("oracle:page-on-two-lists", "after %s: a page is on priority/referenced twice", op); return; }
      rix[cp] = rp.size(); rp.push_back({cp, i < npri, 0, -1});
    }
    for (int h = 0; h < HASH_SIZE; h++) {
      const struct node* head = &ca->hash[h];
      if (head->_succ == head && head->_pred == head) continue;
      std::vector<const struct node*> hn;
      char nm[32]; snprintf(nm, sizeof nm, "hash[%d]", h);
      if (!walk(head, hn, nm)) return;
      for (auto* x : hn) {
        const cache_page* cp = (const cache_page*)((const char*)x - offsetof(cache_page, hash_node));
        auto it = rix.find(cp);
        if (it == rix.end()) { ctx.fail("oracle:hash-orphan", "after %s: hash chain %d holds a page that is on neither the priority nor the referenced list", op, h); return; }
        rp[it->second].hcount++; rp[it->second].hidx = h;
      }
    }
    // ---- reconcile entries
    for (auto& e : entries) {
      if (e.st == DEAD) continue;
      NetM& n = nets[(size_t)e.net];
      auto it = rix.find(e.ptr);
      if (it == rix.end()) {
        if (e.refs > 0) { ctx.fail("oracle:held-page-freed", "after %s: page %x.%x (entry %d) is held %d times but no longer on any list", op, e.pgno, e.subno, e.id, e.refs); return; }
        if (e.st == LIVE) {
          if (e.id != evict_free) { n_victims++; if (e.size > max_victim) max_victim = e.size; }
          if (inS(e.id)) { replaced_gone++; ctx.count("replaced"); }
          else if (n.dead || n.refs == 0) ctx.count("dropped_with_network");
          else if (pressure) ctx.count("evicted");
          else { ctx.fail("oracle:page-lost", "after %s: page %x.%x (entry %d, network %d) vanished: not replaced by a store with its key, no memory pressure (used %lu limit %lu), network still referenced", op, e.pgno, e.subno, e.id, e.net, ca->memory_used, ca->memory_limit); return; }
        } else ctx.count("zombie_freed");
        kill(e);
      } else {
        const cache_page* cp = rp[it->second].cp;
        bool zr = cp->priority == CACHE_PRI_ZOMBIE;
        if (n.dead) { ctx.fail("oracle:switch-left-pages", "after %s: page %x.%x (entry %d) of the dropped network %d is still in the cache", op, e.pgno, e.subno, e.id, e.net); return; }
        if (e.st == ZOMBIE) {
          if (!zr) { ctx.fail("oracle:zombie-revived", "after %s: replaced page %x.%x (entry %d) is reachable again", op, e.pgno, e.subno, e.id); return; }
          if (e.refs == 0) { ctx.fail("oracle:zombie-not-freed", "after %s: replaced page %x.%x (entry %d) lost its last reference but was not freed", op, e.pgno, e.subno, e.id); return; }
        } else if (zr) {
          if (!inS(e.id)) { ctx.fail("oracle:page-lost", "after %s: page %x.%x (entry %d) was made unreachable (zombie) without a store replacing it", op, e.pgno, e.subno, e.id); return; }
          mru_remove(e); e.st = ZOMBIE; replaced_gone++; ctx.count("zombie_created"); ctx.count("fault_replace_while_held");
          if (e.refs == 0) { ctx.fail("oracle:zombie-not-freed", "after %s: unreferenced page %x.%x (entry %d) turned into a zombie instead of being freed", op, e.pgno, e.subno, e.id); return; }
        }
      }
    }
    if (must_replace && !S.empty() && replaced_gone == 0) {
      Entry& e = entries[(size_t)S[0]];
      ctx.fail("oracle:not-replaced", "after %s: a new version of page %x was stored but every older version with the same key (e.g. entry %d subno %x) is still reachable", op, e.pgno, e.id, e.subno);
      return;
    }
    // ---- every real page is a model entry in the right place
    std::vector<int> per_net(nets.size(), 0), per_net_ref(nets.size(), 0);
    std::map<std::pair<int, int>, int> per_page;
    unsigned long mem = 0;
    for (auto& r : rp) {
      auto it = by_ptr.find(r.cp);
      if (it == by_ptr.end()) { ctx.fail("oracle:phantom-page", "after %s: the cache holds page %x.%x (ref %u) which the history does not account for", op, r.cp->pgno, r.cp->subno, r.cp->ref_count); return; }
      Entry& e = entries[(size_t)it->second];
      bool zr = r.cp->priority == CACHE_PRI_ZOMBIE;
      if ((int)r.cp->ref_count != e.refs) { ctx.fail("oracle:page-refcount", "after %s: page %x.%x (entry %d) ref_count %u, references held %d", op, e.pgno, e.subno, e.id, r.cp->ref_count, e.refs); return; }
      if (r.pri != (e.refs == 0) || (r.pri && zr)) { ctx.fail("oracle:wrong-list", "after %s: page %x.%x (entry %d, refs %d, zombie %d) is on the %s list", op, e.pgno, e.subno, e.id, e.refs, zr, r.pri ? "priority" : "referenced"); return; }
      if (zr ? r.hcount != 0 : (r.hcount != 1 || r.hidx != e.pgno % HASH_SIZE)) { ctx.fail("oracle:hash-membership", "after %s: page %x.%x (entry %d, zombie %d) is on %d hash chains (chain %d)", op, e.pgno, e.subno, e.id, zr, r.hcount, r.hidx); return; }
      if (r.cp->network != nets[(size_t)e.net].ptr) { ctx.fail("oracle:page-network", "after %s: page %x.%x (entry %d) points to another network", op, e.pgno, e.subno, e.id); return; }
      if (r.cp->pgno != e.pgno || r.cp->subno != e.subno) { ctx.fail("oracle:content", "after %s: entry %d is page %x.%x, stored as %x.%x", op, e.id, r.cp->pgno, r.cp->subno, e.pgno, e.subno); return; }
      if (e.refs > 0 && !check_content(e)) { ctx.fail("oracle:held-page-changed", "after %s: held page %x.%x (entry %d, %s) no longer equals what its holder received", op, e.pgno, e.subno, e.id, e.st == ZOMBIE ? "replaced" : "current"); return; }
      per_net[(size_t)e.net]++; if (e.refs > 0) per_net_ref[(size_t)e.net]++;
      per_page[{e.net, e.pgno}]++;
      if (e.refs == 0) mem += (unsigned long)e.size;
    }
    // ---- counters and memory accounting
    if (ca->n_cached_pages != rp.size()) { ctx.fail("oracle:count-cache", "after %s: n_cached_pages %u, pages in the cache %zu", op, ca->n_cached_pages, rp.size()); return; }
    for (auto& n : nets) {
      if (n.dead) continue;
      if ((int)n.ptr->n_cached_pages != per_net[(size_t)n.id]) { ctx.fail("oracle:count-network", "after %s: network %d n_cached_pages %u, pages %d", op, n.id, n.ptr->n_cached_pages, per_net[(size_t)n.id]); return; }
      if ((int)n.ptr->n_referenced_pages != per_net_ref[(size_t)n.id]) { ctx.fail("oracle:count-referenced", "after %s: network %d n_referenced_pages %u, referenced pages %d", op, n.id, n.ptr->n_referenced_pages, per_net_ref[(size_t)n.id]); return; }
      for (int k = 0; k < NPG; k++) {
        auto it = per_page.find({n.id, PG[k]});
        int want = it == per_page.end() ? 0 : it->second;
        int got = cache_network_const_page_stat(n.ptr, PG[k])->n_subpages;
        if (got != want) { ctx.fail("oracle:count-subpages", "after %s: network %d page %x n_subpages %d, versions in the cache %d", op, n.id, PG[k], got, want); return; }
      }
    }
    if (ca->memory_used != mem) { ctx.fail("oracle:memory-accounting", "after %s: memory_used %lu, unreferenced pages occupy %lu", op, ca->memory_used, mem); return; }
    if (ca->memory_used > ca->memory_limit) { ctx.fail("oracle:memory-limit", "after %s: memory_used %lu exceeds memory_limit %lu", op, ca->memory_used, ca->memory_limit); return; }
    // "Not evicted": a page may be removed to stay within the limit, not beyond need.  Whatever the order of the
    // victims, the call had not yet enough room before it took the last one, so with the largest victim (V) put back
    // the limit must be exceeded: memory_used + V + (room the call needed) > limit.  Sound for any policy that stops
    // evicting as soon as the call fits; the choice of victims stays free.
    if (pressure && evict_needed >= 0 && n_victims > 0) {
      if ((long)ca->memory_used + max_victim + evict_needed <= limit) { ctx.fail("oracle:evicted-needlessly", "after %s: %d pages were evicted (largest %ld bytes) although memory_used %lu + %ld + the %ld bytes the call needed fit the limit %ld", op, n_victims, max_victim, ca->memory_used, max_victim, evict_needed, limit); return; }
      ctx.count("eviction_need_checked");
      if ((long)ca->memory_used + evict_needed == limit) ctx.count("eviction_to_exact_fit");
    }
    evict_needed = -1; evict_free = -1;
    // abstract state for the exploration measure
    int nl = 0, nz = 0, nh = 0, nn_ = 0;
    for (auto& e : entries) { if (e.st == LIVE) nl++; if (e.st == ZOMBIE) nz++; if (e.st != DEAD && e.refs) nh++; }
    for (auto& n : nets) if (!n.dead) nn_++;
    abst.u64((uint64_t)(nl | nz << 8 | nh << 16 | nn_ << 24)); abst.u64(hash_str(op));
    if (steps <= 12) ctx.state(abst.h);
  }

  // ------------------------------------------------------------ operations --
  void op_put(int who, int64_t h, int64_t pi, int64_t si, int64_t fi, int64_t cseed, bool keep) {
    int net = resolve_net(h); NetM& n = nets[(size_t)net];
    int pgno = PG[absmod(pi, NPG)], subno = SUB[absmod(si, NSUB)] & 0x3F7F;
    const Fn& f = FN[absmod(fi, NFN)];
    static cache_page tmp;  // full-size scratch, copied into an exact-size heap block below
    memset(&tmp, 0, sizeof tmp);
    { uint64_t x = (uint64_t)cseed * 0x9E3779B97F4A7C15ull + 12345; unsigned char* d = (unsigned char*)&tmp.data;
      for (size_t i = 0; i + 8 <= sizeof tmp.data; i += 8) { x = splitmix64(x); memcpy(d + i, &x, 8); }
      tmp.national = (int)(x & 7); tmp.flags = (unsigned)(x >> 8); tmp.lop_packets = (unsigned)(x >> 20) & 0x3FFFFFF; tmp.x27_designations = (unsigned)(x >> 40) & 0xFFFF; }
    tmp.function = (enum ttx_page_function)f.function; tmp.x26_designations = f.x26; tmp.x28_designations = f.x28;
    tmp.pgno = pgno; tmp.subno = subno;
    unsigned int size;
    budget_begin("cache_page_size", 10000); { SutScope ss; size = cache_page_size(&tmp); } budget_end();
    cache_page* src = (cache_page*)malloc(size);  // exact size: reading beyond it is an ASan report
    memcpy(src, &tmp, size);
    Key k = key_rule(pgno, subno, n.clock.count(pgno) && n.clock[pgno]);
    std::vector<int> S;
    bool pressure = false;
    if (!k.refused) {
      auto it = mru.find({net, pgno});
      if (it != mru.end()) for (int id : it->second) { Entry& e = entries[(size_t)id]; if (e.st == LIVE && (e.subno & k.mask) == (k.stored & k.mask)) S.push_back(id); }
      long avail = limit - (long)ca->memory_used;
      if (!S.empty() && entries[(size_t)S[0]].refs == 0) avail += entries[(size_t)S[0]].size;
      pressure = avail < (long)size;
      if (pressure) ctx.count((long)size <= limit ? "fault_memory_pressure" : "fault_page_larger_than_limit");
      if (S.size() > 1) ctx.count("ambiguous_replace");
      {
        // Probe (was a defect, repaired: regress/C10/reuse-mismatch-*.json): the memory available equals the memory
        // needed with a single victim of ANOTHER size - the victim's block must not be reused for the new page.
        bool shape = false;
        if (!S.empty() && entries[(size_t)S[0]].refs == 0) shape = avail == (long)size && entries[(size_t)S[0]].size != (int)size;
        else if (pressure) for (auto& e : entries) if (e.st == LIVE && e.refs == 0 && e.size != (int)size && avail + e.size == (long)size) shape = true;
        if (shape) ctx.count("shape_reuse_other_size");
      }
      if (pressure) {
        // Probe (was a defect, repaired: regress/C10/double-victim-*.json): the pages of networks nobody references
        // do not suffice, so the victim scan goes on to the pages of referenced networks - no page twice.
        long sum1 = 0;
        for (auto& e : entries) if (e.st == LIVE && e.refs == 0 && nets[(size_t)e.net].refs == 0 && !(!S.empty() && S[0] == e.id)) sum1 += e.size;
        if (sum1 > 0 && avail + sum1 < (long)size) ctx.count("shape_two_victim_scans");
      }
    }
    bool fits = (long)size <= limit;
    replaced_gone = 0;
    cache_page* cp;
    budget_begin("_vbi_cache_put_page", 2000000);
    { SutScope ss; cp = _vbi_cache_put_page(ca, n.ptr, src); }
    budget_end();
    free(src);
    ctx.log("t%d put net=%d %x.%x %s size=%u keep=%d -> %s subno=%x", who, net, pgno, subno, f.name, size, keep, cp ? "ok" : "null", cp ? cp->subno : -1);
    if (k.refused) {
      if (cp) { ctx.fail("oracle:put-accepted-nonpage", "page number %x (xFF is not a page) was stored", pgno); return; }
      ctx.count("fault_put_nonpage");
      settle("put(refused)", {}, false, false); return;
    }
    if (!cp) {
      // A store that fits below the limit can always succeed by evicting unreferenced pages.  The code's victim
      // scan gives up when the LAST page of the priority list is needed (no check after the loop) — reported as
      // a suspected defect; knob strict_put=1 turns the leniency off.  Without memory pressure failure is never ok.
      if (fits && (!pressure || plan.knob("strict_put", 0))) { ctx.fail("oracle:put-failed", "store of %x.%x (%u bytes) failed although the limit is %ld and every unreferenced page may be evicted (used %lu, pressure %d)", pgno, subno, size, limit, ca->memory_used, pressure); return; }
      ctx.count(fits ? "put_failed_under_pressure" : "put_failed_limit");
      // the statement is silent about a store that cannot succeed: the version it would have replaced may
      // already have been made unreachable if it is held (observed as a zombie) — accepted
      if (!S.empty()) mru_front(entries[(size_t)S[0]]);  // the search for the old version counts as a look-up
      settle("put(failed)", S, false, false); return;
    }
    // success
    if (cp->subno != k.stored && cp->subno != k.stored_alt) { ctx.fail("oracle:put-subno", "page %x stored with subno %x -> filed under %x, expected %x", pgno, subno, cp->subno, k.stored); return; }
    if (cp->subno != k.stored) ctx.count("clock_23xx_filed_under_0");
    evict_free = (!S.empty() && entries[(size_t)S[0]].refs == 0) ? S[0] : -1;
    auto old = by_ptr.find(cp);
    if (old != by_ptr.end()) {  // the block of an older version was reused for the new one
      Entry& o = entries[(size_t)old->second];
      bool inS = false; for (int x : S) if (x == o.id) inS = true;
      if (o.refs > 0) { ctx.fail("oracle:held-page-freed", "store of %x.%x reused the memory of held page %x.%x (entry %d)", pgno, subno, o.pgno, o.subno, o.id); return; }
      if (o.st == LIVE) {
        if (o.id != evict_free) pre_victim = o.size;
        if (inS) { replaced_gone++; ctx.count("replaced"); }
        else if (pressure) ctx.count("evicted");
        else { ctx.fail("oracle:page-lost", "store of %x.%x overwrote unrelated page %x.%x (entry %d) without memory pressure", pgno, subno, o.pgno, o.subno, o.id); return; }
      }
      ctx.count("block_reused");
      kill(o);
    }
    Entry e; e.id = (int)entries.size(); e.net = net; e.pgno = pgno; e.subno = cp->subno; e.size = (int)size; e.refs = 1; e.st = LIVE; e.ptr = cp;
    tmp.subno = cp->subno;
    e.img.assign((const char*)&tmp + HDR_FROM, HDR_TO - HDR_FROM);
    e.img.append((const char*)&tmp + DATA_FROM, size - DATA_FROM);
    entries.push_back(e); by_ptr[cp] = e.id; mru_front(entries.back());
    puts_ok++; ctx.count("puts");
    if (e.subno > 0xFF) n.nonstd.insert(pgno);
    if (!n.evermax.count(pgno) || n.evermax[pgno] < e.subno) n.evermax[pgno] = e.subno;
    if (!check_content(entries.back())) { ctx.fail("oracle:content", "page %x.%x just stored differs from the page given", pgno, e.subno); return; }
    evict_needed = (long)size;  // the new page is referenced: not yet part of memory_used, but room for it was made
    settle("put", S, pressure, true);
    if (ctx.failed) return;
    slots[who].push_back(e.id);
    if (!keep) unref_slot(who, (int)slots[who].size() - 1);
  }

  void unref_slot(int who, int64_t si) {
    if (slots[who].empty()) return;
    size_t k = (size_t)absmod(si, (int64_t)slots[who].size());
    int id = slots[who][k];
    slots[who].erase(slots[who].begin() + (long)k);
    Entry& e = entries[(size_t)id];
    if (e.st == DEAD || e.refs <= 0) { ctx.fail("harness:slot", "slot refers to a dead entry"); return; }
    bool pressure = e.refs == 1 && e.st == LIVE && (long)ca->memory_used + e.size > limit;
    if (e.st == ZOMBIE && e.refs == 1) { ctx.count("zombie_released"); if (nets[(size_t)e.net].refs == 0) { ctx.count("zombie_released_after_network_dropped"); ctx.count("fault_late_release_after_network_drop"); } }
    replaced_gone = 0;
    budget_begin("cache_page_unref", 2000000);
    { SutScope ss; cache_page_unref((cache_page*)e.ptr); }
    budget_end();
    e.refs--;
    ctx.log("t%d unref %x.%x entry=%d refs=%d", who, e.pgno, e.subno, id, e.refs);
    evict_needed = 0;
    settle("unref", {}, pressure, false);
  }

  void op_get(int who, int64_t h, int64_t pi, int64_t si, int64_t mi, bool keep) {
    int net = resolve_net(h); NetM& n = nets[(size_t)net];
    int pgno = PG[absmod(pi, NPG)], subno = SUB[absmod(si, NSUB)], mask = MASKS[absmod(mi, NMASK)];
    int emask = subno == VBI_ANY_SUBNO ? 0 : mask;
    int ncand = 0;
    int want = (pgno & 0xFF) == 0xFF ? -1 : model_lookup(net, pgno, subno, emask, &ncand);
    replaced_gone = 0;
    cache_page* cp;
    budget_begin("_vbi_cache_get_page", 2000000);
    { SutScope ss; cp = _vbi_cache_get_page(ca, n.ptr, pgno, subno, mask); }
    budget_end();
    ctx.log("t%d get net=%d %x.%x/%x keep=%d -> %s %x", who, net, pgno, subno, mask, keep, cp ? "hit" : "miss", cp ? cp->subno : -1);
    if (!check_lookup("get", cp, want, net, pgno, subno, emask)) return;
    if (!cp) { ctx.count("lookup_miss"); settle("get(miss)", {}, false, false); return; }
    if (ncand > 1) ctx.count("wildcard_multi");
    Entry& e = entries[(size_t)want];
    e.refs++; mru_front(e); hits++; ctx.count("lookup_hit");
    settle("get", {}, false, false);
    if (ctx.failed) return;
    slots[who].push_back(e.id);
    if (!keep) unref_slot(who, (int)slots[who].size() - 1);
  }

  bool check_lookup(const char* what, const cache_page* cp, int want, int net, int pgno, int subno, int emask) {
    if (!cp) {
      if (want >= 0) { Entry& e = entries[(size_t)want]; ctx.fail("oracle:lookup-miss", "%s net %d %x.%x/%x: not found, but version %x (entry %d) was stored and neither replaced nor evicted", what, net, pgno, subno, emask, e.subno, e.id); return false; }
      return true;
    }
    auto it = by_ptr.find(cp);
    if (want < 0) { ctx.fail("oracle:lookup-stale", "%s net %d %x.%x/%x returned page %x.%x although no such version is stored (%s)", what, net, pgno, subno, emask, cp->pgno, cp->subno, it == by_ptr.end() ? "unknown page" : entries[(size_t)it->second].st == ZOMBIE ? "a replaced version" : "another page"); return false; }
    Entry& e = entries[(size_t)want];
    if (it == by_ptr.end() || it->second != want) {
      ctx.fail("oracle:lookup-wrong-version", "%s net %d %x.%x/%x returned subno %x%s, the most recently stored or looked-up matching version is entry %d subno %x", what, net, pgno, subno, emask, cp->subno, it != by_ptr.end() && entries[(size_t)it->second].st == ZOMBIE ? " (a replaced version)" : "", e.id, e.subno);
      return false;
    }
    if (!check_content(e)) { ctx.fail("oracle:content", "%s %x.%x: the returned page is not copy-equal to the stored one", what, pgno, e.subno); return false; }
    return true;
  }

  void op_ref(int who, int64_t si) {
    if (slots[who].empty()) return;
    int id = slots[who][(size_t)absmod(si, (int64_t)slots[who].size())];
    Entry& e = entries[(size_t)id];
    replaced_gone = 0;
    budget_begin("cache_page_ref", 100000);
    { SutScope ss; cache_page_ref((cache_page*)e.ptr); }
    budget_end();
    e.refs++; slots[who].push_back(id);
    ctx.log("t%d ref entry=%d refs=%d", who, id, e.refs);
    settle("ref", {}, false, false);
  }

  void op_iscached(int64_t pi, int64_t si) {
    int pgno = PG[absmod(pi, NPG)], subno = SUB[absmod(si, NSUB)];
    int emask = subno == VBI_ANY_SUBNO ? 0 : -1;
    int want = (pgno & 0xFF) == 0xFF ? -1 : model_lookup(cur, pgno, subno, emask);
    replaced_gone = 0;
    int r;
    budget_begin("vbi_is_cached", 2000000);
    { SutScope ss; r = vbi_is_cached(dec, pgno, subno); }
    budget_end();
    ctx.log("iscached %x.%x -> %d", pgno, subno, r);
    if ((r != 0) != (want >= 0)) { ctx.fail("oracle:is-cached", "vbi_is_cached(%x, %x) = %d, the map %s such a page", pgno, subno, r, want >= 0 ? "holds" : "does not hold"); return; }
    if (want >= 0) { mru_front(entries[(size_t)want]); ctx.count("iscached_true"); }
    // the look-up takes and drops a reference; memory_used is the same before and after: no pressure
    settle("iscached", {}, false, false);
  }

  void op_hisub(int64_t pi) {
    int pgno = PG[absmod(pi, NPG)];
    NetM& n = nets[(size_t)cur];
    int r;
    budget_begin("vbi_cache_hi_subno", 100000);
    { SutScope ss; r = vbi_cache_hi_subno(dec, pgno); }
    budget_end();
    ctx.log("hisub %x -> %x", pgno, r);
    if (n.nonstd.count(pgno)) { ctx.count("hisub_unchecked_nonstd"); return; }  // statistics are kept for 0x00 ... 0x79 only
    // The statistic is documented as "subpages cached now and ever": it never shrinks when a version is
    // evicted or replaced.  Accepted range: highest version in the map now ... highest ever stored.
    int lo = 0;
    for (auto& e : entries) if (e.st == LIVE && e.net == cur && e.pgno == pgno && e.subno > lo) lo = e.subno;
    int hi = n.evermax.count(pgno) ? n.evermax[pgno] : 0;
    if (r < lo || r > hi) ctx.fail("oracle:hi-subno", "vbi_cache_hi_subno(%x) = %x, highest version in the map %x, highest ever stored %x", pgno, r, lo, hi);
    ctx.count("hisub_checked");
  }

  void op_ptype(int64_t h, int64_t pi, int64_t t) {
    int net = resolve_net(h); NetM& n = nets[(size_t)net];
    int pgno = PG[absmod(pi, NPG)];
    bool clock = absmod(t, 2) != 0;
    cache_network_page_stat(n.ptr, pgno)->page_type = clock ? VBI_NONSTD_SUBPAGES : VBI_NORMAL_PAGE;  // what MIP/BTT reception does
    n.clock[pgno] = clock;
    ctx.log("ptype net=%d %x clock=%d", net, pgno, clock);
  }

  struct FeCtx { Sim10* s; int net; int calls; int stop_after; bool bad; int last_ret; };
  static int fe_cb(cache_page* cp, vbi_bool wrapped, void* ud) {
    HarnessScope hs;
    FeCtx* f = (FeCtx*)ud; Sim10& s = *f->s;
    f->calls++;
    auto it = s.by_ptr.find(cp);
    if (it == s.by_ptr.end()) { s.ctx.fail("oracle:foreach-stale", "foreach visited page %x.%x which is not in the map", cp->pgno, cp->subno); f->bad = true; return 1; }
    Entry& e = s.entries[(size_t)it->second];
    if (e.st != LIVE || e.net != f->net) { s.ctx.fail("oracle:foreach-stale", "foreach on network %d visited page %x.%x (entry %d, %s, network %d)", f->net, e.pgno, e.subno, e.id, e.st == ZOMBIE ? "replaced" : "current", e.net); f->bad = true; return 1; }
    if ((int)cp->ref_count != e.refs + 1) { s.ctx.fail("oracle:page-refcount", "foreach passes page %x.%x with ref_count %u while %d references are held elsewhere", e.pgno, e.subno, cp->ref_count, e.refs); f->bad = true; return 1; }
    if (!s.check_content(e)) { s.ctx.fail("oracle:content", "foreach: page %x.%x is not copy-equal to the stored one", e.pgno, e.subno); f->bad = true; return 1; }
    s.mru_front(e);  // foreach finds pages by look-up
    s.ctx.log("  visit %x.%x wrapped=%d", e.pgno, e.subno, wrapped);
    f->last_ret = (f->calls >= f->stop_after || wrapped) ? 1 : 0;
    return f->last_ret;
  }

  void op_foreach(int64_t h, int64_t pi, int64_t si, int64_t dir, int64_t stop_after) {
    int net = resolve_net(h); NetM& n = nets[(size_t)net];
    int pgno = PG[absmod(pi, NPG - 1)], subno = SUB[absmod(si, NSUB)];  // the walk asserts a real page number
    int any = 0, reach = 0;
    for (auto& e : entries) {
      if (e.st == DEAD || e.net != net) continue;
      any++;
      const struct ttx_page_stat* ps = cache_network_const_page_stat(n.ptr, e.pgno);
      if (e.st == LIVE && ps->n_subpages > 0 && e.subno >= ps->subno_min && e.subno <= ps->subno_max) reach++;
    }
    // Probe (was a defect, repaired: regress/C10/foreach-nolap-*.json): no page of the network can be found through
    // the per-page statistics (only replaced-but-held versions left, only clock pages whose subno does not fit the
    // 8-bit statistics, ...): a lap calls back no page; the walk must still end (and then returns 0).
    bool nolap = any > 0 && reach == 0;
    if (nolap) ctx.count("shape_foreach_no_page_in_lap");
    FeCtx f{this, net, 0, 1 + (int)absmod(stop_after, 6), false, 0};
    int d = absmod(dir, 2) ? -1 : +1;
    ctx.log("foreach net=%d from %x.%x dir=%d stop_after=%d", net, pgno, subno, d, f.stop_after);
    replaced_gone = 0;
    int r;
    budget_begin("_vbi_cache_foreach_page", 3000000);
    { SutScope ss; r = _vbi_cache_foreach_page(ca, n.ptr, pgno, subno, d, fe_cb, &f); }
    budget_end();
    if (ctx.failed) return;
    ctx.log("foreach -> %d after %d visits", r, f.calls);
    if (any == 0 && (f.calls || r)) { ctx.fail("oracle:foreach-stale", "foreach on an empty network visited %d pages", f.calls); return; }
    // the walk ends when the callback says so (its value is handed through) or, with 0, when there is nothing (more) to visit
    if (r != f.last_ret) { ctx.fail("oracle:foreach-result", "foreach returned %d, the last callback returned %d (%d visits)", r, f.last_ret, f.calls); return; }
    if (nolap && f.calls == 0) ctx.count("foreach_ended_without_page");
    ctx.count("foreach_visits", f.calls);
    // every visit takes and drops a reference
    settle("foreach", {}, false, false);
  }

  void init_stats(cache_network* cn) {  // what vbi_teletext_channel_switched() does for the decoder's network
    for (unsigned i = 0; i < 0x800; i++) { struct ttx_page_stat* ps = &cn->_pages[i]; unsigned n = ps->n_subpages; memset(ps, 0, sizeof *ps); ps->n_subpages = (uint8_t)n; ps->page_type = VBI_UNKNOWN_PAGE; ps->charset_code = 0xFF; ps->subcode = 0xFFFF; }
  }

  // the cache handed out network block `p` as a new network; returns model id or -1
  int adopt_network(cache_network* p, const char* op) {
    auto it = net_by_ptr.find(p);
    if (it != net_by_ptr.end()) {
      NetM& m = nets[(size_t)it->second];
      if (m.refs > 0 || has_held(m.id)) { ctx.fail("oracle:network-reused", "%s handed out network %d as new although %d references / held pages remain", op, m.id, m.refs); return -1; }
      m.dead = true; net_by_ptr.erase(it); ctx.count("net_recycled");
    }
    NetM n; n.id = (int)nets.size(); n.ptr = p; n.refs = 1; n.dead = false;
    nets.push_back(n); net_by_ptr[p] = n.id;
    return n.id;
  }

  void op_chsw(int64_t mode) {
    NetM& old = nets[(size_t)cur];
    bool held = has_held(cur);
    old.refs--;
    replaced_gone = 0;
    if (absmod(mode, 2) == 0) {
      budget_begin("vbi_chsw_reset", 20000000);
      { SutScope ss; vbi_chsw_reset(dec, 0); }
      budget_end();
    } else {
      // the public way: announce the switch, it is executed when the next frame is decoded
      budget_begin("vbi_channel_switched", 100000);
      { SutScope ss; vbi_channel_switched(dec, 0); }
      ts += 0.04;
      budget_begin("vbi_decode", 20000000);
      { SutScope ss; vbi_decode(dec, nullptr, 0, ts); }
      budget_end();
    }
    if (held) { ctx.count("hold_across_switch"); ctx.count("fault_switch_while_held"); }
    ctx.count("switches");
    int prev = cur;
    if (dec->cn == old.ptr && (old.refs > 0 || held)) { ctx.fail("oracle:switch-kept-network", "after the channel switch the decoder still uses the old network %d", prev); return; }
    int id = adopt_network(dec->cn, "channel switch");
    if (id < 0) return;
    cur = id;
    ctx.log("chsw mode=%d old net=%d (refs %d, held %d) -> net=%d", (int)absmod(mode, 2), prev, nets[(size_t)prev].refs, held, id);
    settle("chsw", {}, false, false);
    // no page of the old network is reachable through the decoder
    for (int k = 0; k < NPG - 1 && !ctx.failed; k++) {
      int r, hs;
      budget_begin("vbi_is_cached", 2000000);
      { SutScope ss; r = vbi_is_cached(dec, PG[k], VBI_ANY_SUBNO); hs = vbi_cache_hi_subno(dec, PG[k]); }
      budget_end();
      if (r || hs) ctx.fail("oracle:switch-left-pages", "after the channel switch page %x is still cached (is_cached %d, hi_subno %x)", PG[k], r, hs);
    }
  }

  void op_netadd(int64_t mode, int64_t h) {
    if (handles.size() >= 6) return;
    replaced_gone = 0;
    if (absmod(mode, 3) == 0) {  // look the network up by its own id: another reference to the same network
      int net = resolve_net(h); NetM& n = nets[(size_t)net];
      cache_network* p;
      budget_begin("_vbi_cache_add_network", 2000000);
      { SutScope ss; p = _vbi_cache_add_network(ca, &n.ptr->network, VBI_VIDEOSTD_SET_625_50); }
      budget_end();
      if (p != n.ptr) { ctx.fail("oracle:network-lookup", "adding network %d by its own id returned another network", net); return; }
      n.refs++; handles.push_back(net);
      ctx.log("netadd same net=%d refs=%d", net, n.refs);
    } else {
      cache_network* p;
      budget_begin("_vbi_cache_add_network", 2000000);
      { SutScope ss; p = _vbi_cache_add_network(ca, nullptr, VBI_VIDEOSTD_SET_625_50); }
      budget_end();
      if (!p) { ctx.fail("oracle:network-add", "adding an anonymous network failed"); return; }
      int id = adopt_network(p, "add_network");
      if (id < 0) return;
      init_stats(p);
      handles.push_back(id);
      ctx.log("netadd new net=%d", id);
    }
    settle("netadd", {}, false, false);
  }

  void op_netref(int64_t h) {
    if (handles.size() >= 6) return;
    int net = resolve_net(h); NetM& n = nets[(size_t)net];
    budget_begin("cache_network_ref", 100000);
    { SutScope ss; cache_network_ref(n.ptr); }
    budget_end();
    n.refs++; handles.push_back(net);
    ctx.log("netref net=%d refs=%d", net, n.refs);
    replaced_gone = 0;
    settle("netref", {}, false, false);
  }

  void net_unref(int64_t hi) {
    if (handles.empty()) return;
    size_t k = (size_t)absmod(hi, (int64_t)handles.size());
    int net = handles[k]; handles.erase(handles.begin() + (long)k);
    NetM& n = nets[(size_t)net];
    replaced_gone = 0;
    budget_begin("cache_network_unref", 20000000);
    { SutScope ss; cache_network_unref(n.ptr); }
    budget_end();
    n.refs--;
    if (n.refs == 0 && has_held(net)) { ctx.count("network_dropped_with_held_pages"); ctx.count("fault_network_drop_while_held"); }
    ctx.log("netunref net=%d refs=%d", net, n.refs);
    settle("netunref", {}, false, false);
  }

  void exec(const Op& op, int who) {
    if (ctx.failed || !dec) return;
    const std::string& k = op.kind;
    if (k == "put") op_put(who, op.arg(0), op.arg(1), op.arg(2), op.arg(3), op.arg(4), op.arg(5) & 1);
    else if (k == "get") op_get(who, op.arg(0), op.arg(1), op.arg(2), op.arg(3), op.arg(4) & 1);
    else if (k == "ref") op_ref(who, op.arg(0));
    else if (k == "unref") unref_slot(who, op.arg(0));
    else if (k == "iscached") op_iscached(op.arg(0), op.arg(1));
    else if (k == "hisub") op_hisub(op.arg(0));
    else if (k == "ptype") op_ptype(op.arg(0), op.arg(1), op.arg(2));
    else if (k == "foreach") op_foreach(op.arg(0), op.arg(1), op.arg(2), op.arg(3), op.arg(4));
    else if (k == "chsw") op_chsw(op.arg(0));
    else if (k == "netadd") op_netadd(op.arg(0), op.arg(1));
    else if (k == "netref") op_netref(op.arg(0));
    else if (k == "netunref") net_unref(op.arg(0));
    else if (k == "reset") { close(); if (!ctx.failed) { alloc_track_reset(); open(); ctx.count("exh_histories"); } }
  }
};

// ---- the exhaustive alphabet: 14 symbols over pages A=0x100 B=0x171 (same hash chain) C=0x1AB (hex) ----
static const int EXH_SYM = 14;
static Op exh_op(int sym) {
  Op o; o.task = 0;
  static const int P3[] = {0, 1, 4};
  if (sym < 3) { o.kind = "put"; o.a = {0, P3[sym], 1, 0, 7 + sym, 1}; }             // store subpage 1, keep the reference
  else if (sym < 6) { o.kind = "put"; o.a = {0, P3[sym - 3], 1, 0, 11 + sym, 0}; }    // store subpage 1, release at once
  else if (sym == 6) { o.kind = "put"; o.a = {0, 0, 2, 1, 23, 0}; }                  // second subpage of A, larger size class
  else if (sym < 10) { o.kind = "get"; o.a = {0, P3[sym - 7], 11, 0, 1}; }            // wildcard look-up, keep
  else if (sym == 10) { o.kind = "unref"; o.a = {0}; }                               // release the oldest reference
  else if (sym == 11) { o.kind = "unref"; o.a = {-1}; }                              // release the newest reference
  else if (sym == 12) { o.kind = "chsw"; o.a = {0}; }
  else { o.kind = "foreach"; o.a = {0, 0, 0, 0, 2}; }
  return o;
}

struct C10 : World {
  const char* name() const override { return "c10"; }
  const char* property() const override { return "C10"; }

  // ops (task 0 = client, 1 = holder):
  //  put      a=[net, page, subno, function/size class, content seed, keep]
  //  get      a=[net, page, subno, mask, keep]      ref a=[slot]   unref a=[slot]
  //  iscached a=[page, subno]   hisub a=[page]   ptype a=[net, page, clock?]
  //  foreach  a=[net, page, subno, dir, stop_after]
  //  chsw     a=[0 vbi_chsw_reset | 1 vbi_channel_switched + next frame]
  //  netadd   a=[0 same network by id | else new anonymous, net]   netref a=[net]   netunref a=[handle]
  //  reset    (exhaustive blocks) release everything, delete the decoder, leak check, fresh decoder
  Plan generate(uint64_t seed, const std::string& tier) override {
    Plan p; p.world = name(); p.seed = seed;
    Rng r(seed, "plan");
    p.knobs["sched_seed"] = (int64_t)(r.next() >> 1);
    p.knobs["policy"] = (int64_t)r.below(3);
    p.knobs["pparam"] = (p.knobs["policy"] == 1) ? 40 + (int64_t)r.below(55) : (int64_t)r.below(4);
    p.knobs["release_rev"] = (int64_t)r.below(2);
    p.knobs["release_holder_first"] = (int64_t)r.below(2);
    // Oracle leniency, not steering: 0 accepts a store that fails under memory pressure although evicting every
    // unreferenced page would have made room (see op_put); 1 demands success (green once out/C10/fix-4.diff is in).
    p.knobs["strict_put"] = 1;  // cache.c repaired (fix: cbc73fe): a store that fits must succeed
    bool thorough = tier == "thorough";
    if (r.chance(1, 8)) {
      // bounded-exhaustive block
      int depth = thorough ? 5 : 4;
      uint64_t total = 1; for (int i = 0; i < depth; i++) total *= EXH_SYM;
      uint64_t nblocks = (total + 63) / 64;
      uint64_t b = r.below(nblocks);
      static const int L3[] = {1, 4, NLIMIT - 1};  // one plain page / about two / never evicts
      p.knobs["limit_idx"] = L3[r.below(3)];
      p.knobs["exh_block"] = (int64_t)b; p.knobs["exh_depth"] = depth;
      for (uint64_t i = b * 64; i < std::min(total, b * 64 + 64); i++) {
        uint64_t v = i;
        for (int d = 0; d < depth; d++) { p.ops.push_back(exh_op((int)(v % EXH_SYM))); v /= EXH_SYM; }
        Op rs; rs.task = 0; rs.kind = "reset"; p.ops.push_back(rs);
      }
      return p;
    }
    p.knobs["limit_idx"] = r.chance(1, 4) ? NLIMIT - 1 : (int64_t)r.below(NLIMIT);
    // swarm: a random sub-alphabet and operation mix per run
    int npg = 2 + (int)r.below(NPG - 1), nsub = 2 + (int)r.below(NSUB - 1), nfn = 1 + (int)r.below(NFN);
    int pgoff = (int)r.below(NPG), suboff = r.chance(1, 2) ? 0 : (int)r.below(NSUB), fnoff = (int)r.below(NFN);
    auto page = [&] { return (int64_t)((pgoff + (int)r.below((uint64_t)npg)) % NPG); };
    auto sub = [&] { return (int64_t)((suboff + (int)r.below((uint64_t)nsub)) % NSUB); };
    auto fn = [&] { return (int64_t)((fnoff + (int)r.below((uint64_t)nfn)) % NFN); };
    // "exactly full" flavour (1 run in 5): plain pages only, a limit of exactly one / two / three of them, two page numbers
    // (half of the time the two that share a hash chain), few subpages, many wildcard look-ups: every store into the
    // full cache takes one victim of the same size (block reused in place) and the wildcard look-up that follows
    // must return the version just stored, whatever the victim's place in its hash chain was
    bool exact = r.chance(1, 5);
    if (exact) {
      static const int LX[] = {1, 11, 12};
      p.knobs["limit_idx"] = LX[r.below(3)];
      p.knobs["flavour_exact"] = 1;
      npg = 2; if (r.chance(1, 2)) pgoff = 0;
      nfn = 1; fnoff = 0; suboff = 0; nsub = 2 + (int)r.below(4);
    }
    auto gsub = [&] { return exact && r.chance(1, 2) ? (int64_t)11 : sub(); };
    int nseeds = 1 + (int)r.below(5);  // few distinct contents: identical re-stores happen
    int w_put = 4 + (int)r.below(8), w_get = 2 + (int)r.below(8), w_unref = 2 + (int)r.below(6), w_ref = (int)r.below(3), w_isc = (int)r.below(4),
        w_his = (int)r.below(3), w_pt = (int)r.below(3), w_fe = (int)r.below(4), w_sw = (int)r.below(3), w_na = (int)r.below(3), w_nr = (int)r.below(2), w_nu = (int)r.below(3);
    if (exact) { w_put += 6; w_get += 6; w_sw = w_sw ? 1 : 0; w_na = w_nu = w_nr = 0; }
    int wsum = w_put + w_get + w_unref + w_ref + w_isc + w_his + w_pt + w_fe + w_sw + w_na + w_nr + w_nu;
    int nops = (thorough ? 20 : 8) + (int)r.below(thorough ? 280 : 110);
    int holder_share = (int)r.below(50);  // percent of ops issued by the holder
    for (int i = 0; i < nops; i++) {
      Op o;
      if ((int)r.below(100) < holder_share) {
        o.task = 1;
        int x = (int)r.below(20);
        if (x < 10) { o.kind = "get"; o.a = {(int64_t)r.below(3), page(), gsub(), (int64_t)r.below(NMASK), 1}; }
        else if (x < 17) { o.kind = "unref"; o.a = {(int64_t)r.below(8)}; }
        else if (x < 19) { o.kind = "ref"; o.a = {(int64_t)r.below(8)}; }
        else { o.kind = "put"; o.a = {(int64_t)r.below(3), page(), sub(), fn(), (int64_t)r.below((uint64_t)nseeds), 1}; }
      } else {
        o.task = 0;
        int x = (int)r.below((uint64_t)wsum);
        if ((x -= w_put) < 0) { o.kind = "put"; o.a = {(int64_t)r.below(3), page(), sub(), fn(), (int64_t)r.below((uint64_t)nseeds), (int64_t)r.chance(1, 3)}; }
        else if ((x -= w_get) < 0) { o.kind = "get"; o.a = {(int64_t)r.below(3), page(), gsub(), (int64_t)r.below(NMASK), (int64_t)r.chance(1, 3)}; }
        else if ((x -= w_unref) < 0) { o.kind = "unref"; o.a = {(int64_t)r.below(8)}; }
        else if ((x -= w_ref) < 0) { o.kind = "ref"; o.a = {(int64_t)r.below(8)}; }
        else if ((x -= w_isc) < 0) { o.kind = "iscached"; o.a = {page(), sub()}; }
        else if ((x -= w_his) < 0) { o.kind = "hisub"; o.a = {page()}; }
        else if ((x -= w_pt) < 0) { o.kind = "ptype"; o.a = {(int64_t)r.below(3), page(), (int64_t)r.below(2)}; }
        else if ((x -= w_fe) < 0) { o.kind = "foreach"; o.a = {(int64_t)r.below(3), page(), sub(), (int64_t)r.below(2), (int64_t)r.below(6)}; }
        else if ((x -= w_sw) < 0) { o.kind = "chsw"; o.a = {(int64_t)r.below(2)}; }
        else if ((x -= w_na) < 0) { o.kind = "netadd"; o.a = {(int64_t)r.below(3), (int64_t)r.below(3)}; }
        else if ((x -= w_nr) < 0) { o.kind = "netref"; o.a = {(int64_t)r.below(3)}; }
        else { o.kind = "netunref"; o.a = {(int64_t)r.below(4)}; }
      }
      p.ops.push_back(o);
    }
    return p;
  }

  void run(const Plan& plan, RunCtx& ctx) override {
    static bool warmed = false;
    if (!warmed) {  // one-time process-global initialisation is not a per-decoder leak
      warmed = true;
      vbi_decoder* d = vbi_decoder_new();
      vbi_decoder_delete(d);
    }
    alloc_track_reset();
    Sim10 s(ctx, plan);
    Sched sched(ctx, (uint64_t)plan.knob("sched_seed", (int64_t)plan.seed), (Policy)absmod(plan.knob("policy"), 3), (int)plan.knob("pparam"));
    s.open();
    std::vector<const Op*> per[2];
    for (auto& op : plan.ops) per[op.task == 0 ? 0 : 1].push_back(&op);
    for (int t = 0; t < 2; t++) {
      if (per[t].empty()) continue;
      sched.spawn(t == 0 ? "client" : "holder", [&, t] {
        for (const Op* op : per[t]) {
          if (ctx.failed) return;
          s.exec(*op, t);
          sched.yield();
        }
      });
    }
    int rc = sched.run(5000000);
    if (rc == 2) ctx.fail("harness:budget", "scheduler budget exhausted");
    ctx.state(sched.interleaving_hash());
    if (!ctx.failed) s.close();
    if (plan.knob("flavour_exact", 0)) ctx.count("runs_exactly_full_flavour");
    ctx.nontrivial = s.puts_ok >= 3 && s.hits >= 1;
  }
};
ZSIM_REGISTER_WORLD(C10)

}  // namespace
