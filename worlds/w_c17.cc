// C17 — search finds exactly the pages containing the pattern, in page order, and ends.
//
// World: one vbi_decoder with a TTX_PAGE handler.  A broadcaster task transmits
// real Teletext pages (header, rows, terminating time-filler header) through
// vbi_decode(); the page text is drawn from a tiny alphabet ("AB ab.+" plus
// colour / double width / double height / double size spacing attributes) so
// that matches are common.  A searcher task runs search contexts:
// vbi_search_new() (literal or regular expression, case folded or not, any
// start page 0x100-0x8FF cached or not, wildcard / zero / explicit subpage,
// optional progress callback that may cancel) followed by vbi_search_next(+1/-1)
// calls with direction changes.  In "static" runs the broadcaster finishes
// before the searcher starts (strict oracle: order, completeness, not-found);
// in "dynamic" runs the scheduler interleaves broadcaster packets between the
// searcher's calls (cache updates between calls): a pass during which the cache
// changed gets the per-return oracle only from the change on, passes between two
// updates the strict one.
//
// Contexts are long-lived: besides single calls with direction changes a
// context runs whole passes ("pass" op: vbi_search_next until not-found)
// followed by further passes in the same or the opposite direction, and
// contexts share start pages.  Pass model, from search.h / the documentation of
// vbi_search_new():
//   * first call, or first call after not-found ("Another vbi_search_next() will
//     restart from the original starting point"): a pass from the start page of
//     vbi_search_new(), forward or backward, as a fresh context would make it.
//     For backward passes three readings of "starting at the start page" are
//     accepted (start page last / first / all its subpages first), but all
//     backward passes from one start page over one cache must follow the same
//     one whatever the context did before (oracle:search-start-moved);
//   * direction change in the middle of a pass (documentation silent): a new
//     pass from the page returned last, its remainder first, wrapping once;
//   * passes after not-found in a context that changed direction mid-pass: the
//     implementation restarts where the direction last changed, search.h says
//     the original starting point, the statement says nothing: any first page
//     is accepted; page order, once per pass, completeness, not-found checked.
//
// Reference: page store keyed (pgno, subno) mirroring what a receiver must hold
// + the Level-1 formatter of worlds/ttx.h -> expected displayed rows 1-23;
// an independent matcher (set-of-positions evaluation of a small regex AST;
// literals are concatenations of characters with simple ASCII case folding).
// Every vbi_search_next() runs under an edge budget derived from the number of
// cached pages (bounded liveness).
#include <algorithm>
#include <bitset>
#include <cstdio>
#include <cstring>
#include <map>
#include <set>

#include "alloc.h"
#include "sim.h"
#include "ttx.h"

extern "C" {
#include "src/libzvbi.h"
}

using namespace sim;

namespace {

static int to_bcd(int v) { return ((v / 10) % 10) * 16 + v % 10; }
static bool is_bcd(int v) { for (; v > 0; v >>= 4) if ((v & 15) > 9) return false; return true; }

// ============================================================ regex subset ===
// alt := cat ('|' cat)* ; cat := piece+ ; piece := atom ('*'|'+'|'?')? ;
// atom := '(' alt ')' | '[' '^'? (c | c '-' c)+ ']' | '.' | '^' | '$' | '\' c | c
enum { R_CHAR, R_ANY, R_CLS, R_BOL, R_EOL, R_CAT, R_ALT, R_STAR, R_PLUS, R_QUEST };
struct ReNode { int k = R_CHAR; int ch = 0; bool neg = false; std::vector<std::pair<int, int>> rg; std::vector<int> kid; };
struct Regex { std::vector<ReNode> n; int root = -1; };

struct ReParser {
  const std::string& s; Regex& re; size_t i = 0; bool err = false;
  ReParser(const std::string& s_, Regex& re_) : s(s_), re(re_) {}
  int mk(int k) { re.n.push_back(ReNode()); re.n.back().k = k; return (int)re.n.size() - 1; }
  int peek() { return i < s.size() ? (unsigned char)s[i] : -1; }
  int alt() {
    int first = cat(); if (err) return -1;
    if (peek() != '|') return first;
    int a = mk(R_ALT); re.n[(size_t)a].kid.push_back(first);
    while (peek() == '|') { i++; int c = cat(); if (err) return -1; re.n[(size_t)a].kid.push_back(c); }
    return a;
  }
  int cat() {
    std::vector<int> ks;
    while (i < s.size() && s[i] != '|' && s[i] != ')') { int p = piece(); if (err) return -1; ks.push_back(p); }
    if (ks.empty()) { err = true; return -1; }
    if (ks.size() == 1) return ks[0];
    int c = mk(R_CAT); re.n[(size_t)c].kid = ks; return c;
  }
  static bool isq(int c) { return c == '*' || c == '+' || c == '?'; }
  int piece() {
    int a = atom(); if (err) return -1;
    if (isq(peek())) {
      int k = s[i] == '*' ? R_STAR : s[i] == '+' ? R_PLUS : R_QUEST; i++;
      int q = mk(k); re.n[(size_t)q].kid.push_back(a); a = q;
      if (isq(peek())) err = true;
    }
    return a;
  }
  int atom() {
    int c = (unsigned char)s[i++];
    switch (c) {
      case '(': { int a = alt(); if (err || peek() != ')') { err = true; return -1; } i++; return a; }
      case '[': {
        int n = mk(R_CLS);
        if (peek() == '^') { re.n[(size_t)n].neg = true; i++; }
        bool any = false;
        while (i < s.size() && s[i] != ']') {
          int lo = (unsigned char)s[i++]; if (lo == '\\' || lo == ':' || lo == '-') { err = true; return -1; }
          int hi = lo;
          if (i + 1 < s.size() && s[i] == '-' && s[i + 1] != ']') { hi = (unsigned char)s[i + 1]; i += 2; if (hi < lo) { err = true; return -1; } }
          re.n[(size_t)n].rg.push_back({lo, hi}); any = true;
        }
        if (!any || peek() != ']') { err = true; return -1; }
        i++; return n;
      }
      case '.': return mk(R_ANY);
      case '^': return mk(R_BOL);
      case '$': return mk(R_EOL);
      case '\\': {
        if (i >= s.size()) { err = true; return -1; }
        int e = (unsigned char)s[i++];
        if ((e >= 'a' && e <= 'z') || (e >= 'A' && e <= 'Z') || (e >= '0' && e <= '9')) { err = true; return -1; }  // escapes with a meaning: not in the subset
        int n = mk(R_CHAR); re.n[(size_t)n].ch = e; return n;
      }
      case '*': case '+': case '?': case ')': case '|': case ']': err = true; return -1;
      default: { int n = mk(R_CHAR); re.n[(size_t)n].ch = c; return n; }
    }
  }
};

static bool parse_regex(const std::string& s, Regex& re) {
  re = Regex(); if (s.empty()) return false;
  ReParser p(s, re); int r = p.alt();
  if (p.err || p.i != s.size() || r < 0) return false;
  re.root = r; return true;
}
static void literal_regex(const std::vector<uint16_t>& lit, Regex& re) {
  re = Regex();
  ReNode c; c.k = R_CAT; re.n.push_back(c);
  for (uint16_t u : lit) { ReNode x; x.k = R_CHAR; x.ch = u; re.n.push_back(x); re.n[0].kid.push_back((int)re.n.size() - 1); }
  re.root = 0;
}

typedef std::vector<uint16_t> Text;
static int lower_(int c) { return (c >= 'A' && c <= 'Z') ? c + 32 : c; }
static int upper_(int c) { return (c >= 'a' && c <= 'z') ? c - 32 : c; }

// Set-of-positions evaluation; sets are bit sets over text positions 0..len, so one evaluation covers every start.
typedef std::bitset<1024> PSet;
struct Matcher {
  const Regex& re; const Text& t; bool fold, dotnl;
  mutable std::vector<PSet> mask; mutable bool prepared = false;
  Matcher(const Regex& r, const Text& tx, bool f, bool d) : re(r), t(tx), fold(f), dotnl(d) {}
  bool chr(int pat, int c) const { return fold ? lower_(pat) == lower_(c) : pat == c; }
  bool cls(const ReNode& n, int c) const {
    bool in = false;
    for (auto& r : n.rg) {
      if (c >= r.first && c <= r.second) in = true;
      if (fold && ((lower_(c) >= r.first && lower_(c) <= r.second) || (upper_(c) >= r.first && upper_(c) <= r.second))) in = true;
    }
    if (n.neg) return !in && (c != 0x0A || dotnl);
    return in;
  }
  void prepare() const {
    if (prepared) return; prepared = true;
    int len = (int)t.size(); if (len > 1000) len = 1000;
    mask.assign(re.n.size(), PSet());
    for (size_t i = 0; i < re.n.size(); i++) {
      const ReNode& n = re.n[i];
      for (int p = 0; p <= len; p++) {
        bool m = false;
        switch (n.k) {
          case R_CHAR: m = p < len && chr(n.ch, t[(size_t)p]); break;
          case R_ANY: m = p < len && (t[(size_t)p] != 0x0A || dotnl); break;
          case R_CLS: m = p < len && cls(n, t[(size_t)p]); break;
          case R_BOL: m = p == 0 || t[(size_t)p - 1] == 0x0A; break;
          case R_EOL: m = p == len || t[(size_t)p] == 0x0A; break;
          default: break;
        }
        if (m) mask[i].set((size_t)p);
      }
    }
  }
  // E: every end reachable from S.  N: ends reachable from S on a path that consumed at least one character.
  PSet star(int kid, PSet S) const { for (;;) { PSet nx = S | E(kid, S); if (nx == S) return S; S = nx; } }
  PSet E(int ni, const PSet& S) const {
    const ReNode& n = re.n[(size_t)ni];
    switch (n.k) {
      case R_CHAR: case R_ANY: case R_CLS: return (S & mask[(size_t)ni]) << 1;
      case R_BOL: case R_EOL: return S & mask[(size_t)ni];
      case R_CAT: { PSet x = S; for (int k : n.kid) { x = E(k, x); if (x.none()) break; } return x; }
      case R_ALT: { PSet x; for (int k : n.kid) x |= E(k, S); return x; }
      case R_QUEST: return S | E(n.kid[0], S);
      case R_STAR: return star(n.kid[0], S);
      case R_PLUS: return star(n.kid[0], E(n.kid[0], S));
    }
    return PSet();
  }
  PSet N(int ni, const PSet& S) const {
    const ReNode& n = re.n[(size_t)ni];
    switch (n.k) {
      case R_CHAR: case R_ANY: case R_CLS: return (S & mask[(size_t)ni]) << 1;
      case R_BOL: case R_EOL: return PSet();
      case R_CAT: {
        // split at the first component that consumes: e = all ends so far, c = ends that already consumed
        PSet e = S, c;
        for (int k : n.kid) { PSet c2 = E(k, c) | N(k, e); e = E(k, e); c = c2; }
        return c;
      }
      case R_ALT: { PSet x; for (int k : n.kid) x |= N(k, S); return x; }
      case R_QUEST: return N(n.kid[0], S);
      case R_STAR: case R_PLUS: return star(n.kid[0], N(n.kid[0], star(n.kid[0], S)));
    }
    return PSet();
  }
  // a non-empty match exists anywhere in t
  bool exists() const {
    prepare();
    int len = (int)t.size(); if (len > 1000) len = 1000;
    PSet all; for (int p = 0; p <= len; p++) all.set((size_t)p);
    return N(re.root, all).any();
  }
  bool full(int s, int e) const { prepare(); if (s < 0 || e > 1000 || e < s) return false; PSet S; S.set((size_t)s); return E(re.root, S).test((size_t)e); }
};

// Two different symbols of the pattern (a literal, '.', a class) that can match the same character.  ure.c builds its
// automaton per symbol and follows only the first transition whose symbol matches, so it is a DFA only when the
// symbols are disjoint; with overlapping symbols it misses matches (reported as a suspected defect, see the report).
static bool symbols_overlap(const Regex& re, bool fold) {
  std::vector<std::pair<std::string, std::vector<bool>>> syms;
  for (const ReNode& n : re.n) {
    if (n.k != R_CHAR && n.k != R_ANY && n.k != R_CLS) continue;
    std::string key; std::vector<bool> set(129, false);
    Text dummy; Regex r1; Matcher m(r1, dummy, fold, false);
    if (n.k == R_CHAR) { int c = fold ? lower_(n.ch) : n.ch; key = "c" + std::to_string(c); for (int x = 0; x < 128; x++) if (m.chr(n.ch, x)) set[(size_t)x] = true; if (n.ch >= 128) set[128] = true; }
    else if (n.k == R_ANY) { key = "."; for (int x = 0; x < 129; x++) set[(size_t)x] = x != 0x0A; }
    else { key = n.neg ? "[^" : "["; for (auto& r : n.rg) key += std::to_string(r.first) + "-" + std::to_string(r.second) + ","; for (int x = 0; x < 128; x++) if (m.cls(n, x)) set[(size_t)x] = true; set[128] = n.neg; }
    syms.push_back({key, set});
  }
  for (size_t a = 0; a < syms.size(); a++) for (size_t b = a + 1; b < syms.size(); b++) {
    if (syms[a].first == syms[b].first) continue;
    for (int x = 0; x < 129; x++) if (syms[a].second[(size_t)x] && syms[b].second[(size_t)x]) return true;
  }
  return false;
}

// ============================================================ page model =====
struct MPage { ttx::PageImage img; int pgno = 0, subno = 0; uint32_t version = 0; };
struct Entry { uint16_t u; int row, col, w; bool dh; };  // col < 0: row separator
struct Derived { std::vector<Entry> d1; Text t1, t2, t3; bool has_dh = false; };

static void derive(const MPage& mp, Derived& d) {
  static ttx::Cell grid[25][40];
  ttx::format_level1(mp.img, grid);
  bool lower[26]; memset(lower, 0, sizeof lower);
  for (int row = 0; row < 25; row++) {
    bool dh = false;
    if (row >= 1 && row <= 22) for (int col = 0; col < 40; col++) { int raw = mp.img.rows[row][col] & 0x7F; if (raw == 0x0D || (raw == 0x0F && col < 39)) dh = true; }
    if (dh && row < 24) { lower[row + 1] = true; row++; d.has_dh = true; }
  }
  d.d1.clear(); d.t1.clear(); d.t2.clear(); d.t3.clear();
  for (int row = 1; row <= 23; row++) {
    for (int col = 0; col < 40; col++) {
      const ttx::Cell& c = grid[row][col];
      uint16_t u = (uint16_t)c.code;
      switch (c.size) {
        case ttx::NORMAL: case ttx::DH:
          d.d1.push_back({u, row, col, 1, c.size == ttx::DH}); d.t1.push_back(u); d.t2.push_back(u); if (!lower[row]) d.t3.push_back(u); break;
        case ttx::DW: case ttx::DS:
          d.d1.push_back({u, row, col, 2, c.size == ttx::DS}); d.t1.push_back(u); d.t2.push_back(u); if (!lower[row]) d.t3.push_back(u); col++; break;
        case ttx::DH2: d.t2.push_back(u); break;          // documentation: enlarged characters match again on the lower row
        case ttx::DS2: d.t2.push_back(u); col++; break;
        default: break;                                    // OVER_TOP / OVER_BOTTOM stray halves
      }
    }
    d.d1.push_back({0x0A, row, -1, 0, false}); d.t1.push_back(0x0A); d.t2.push_back(0x0A); if (!lower[row]) d.t3.push_back(0x0A);
  }
}

enum { MUSTNOT = 0, MAY = 1, MUST = 2 };

static void header_text(int pgno, uint8_t out[32]) {
  char t[40];
  snprintf(t, sizeof t, "ZSIMTEXT%03X Network News AB12:34:56", pgno);
  memcpy(out, t, 32);
}

// row content from the tiny alphabet; style bits: 1 colour codes, 2 double width, 4 double height, 8 double size
static void gen_row(Rng& r, int style, uint8_t out[40]) {
  static const char alpha[] = "      AAAABBBaaabb.+";
  int blanks = (int)r.below(4);  // 0: dense text ... 3: mostly blank with words
  for (int c = 0; c < 40; c++) {
    if ((style & 15) && r.chance(1, 10)) {
      int pick[8], n = 0;
      if (style & 1) { pick[n++] = 1 + (int)r.below(7); }
      if (style & 2) { pick[n++] = 0x0E; pick[n++] = 0x0C; }
      if (style & 4) { pick[n++] = 0x0D; pick[n++] = 0x0C; }
      if (style & 8) { pick[n++] = 0x0F; pick[n++] = 0x0C; }
      out[c] = (uint8_t)pick[r.below((uint64_t)n)];
      continue;
    }
    if (blanks && r.below(4) < (uint64_t)blanks) { out[c] = ' '; continue; }
    out[c] = (uint8_t)alpha[r.below(sizeof alpha - 1)];
  }
}

static int sanitize_pgno(int64_t a) {
  int pgno = 0x100 + (int)(llabs(a) % 0x800);
  int lo = pgno & 0xFF;
  // 0x?FF time filler, 0x?FD MIP, 0x?FE MOT, 0x1F0 BTT, 0x1E7 EACEM trigger: system pages, not part of the statement
  if (lo == 0xFF || lo == 0xFD || lo == 0xFE || pgno == 0x1F0 || pgno == 0x1E7) pgno -= 3;
  return pgno;
}
// a page number has exactly one subpage class (EN 300 706 A.1): hex pages S1 0-3, decimal ..7 clock pages, other odd
// numbers always subcode 0000, even numbers subpages 01-79
static int subno_for(int pgno, int64_t sel) {
  int s = (int)(llabs(sel) % 100000);
  if (!is_bcd(pgno)) return s % 4;
  if ((pgno & 15) == 7) return (to_bcd(1 + (s / 60) % 22) << 8) | to_bcd(s % 60);
  if (pgno & 1) return 0;
  return to_bcd(1 + s % 79);
}

// ================================================================ world ======
struct C17 : World {
  const char* name() const override { return "c17"; }
  const char* property() const override { return "C17"; }

  // regex feature mask (knob re_mask): 1 '.', 2 classes, 4 quantifiers, 8 alternation, 16 groups, 32 anchors, 64 negated classes
  static std::string esc(int c) { std::string s; if (strchr(".+*?()[]|^$\\", c)) s += '\\'; s += (char)c; return s; }
  static int rnd_char(Rng& r) { static const char a[] = "AAABBBaabb  .+"; return a[r.below(sizeof a - 1)]; }
  static std::string gen_atom(Rng& r, int mask, int depth) {
    for (;;) {
      switch (r.below(8)) {
        case 0: if (mask & 1) return "."; break;
        case 1: if (mask & 2) { static const char* c[] = {"[AB]", "[ab]", "[A-B]", "[Aa]", "[Bb.]", "[a-b ]", "[AB+]"}; return c[r.below(7)]; } break;
        case 2: if (mask & 64) { static const char* c[] = {"[^A]", "[^ ]", "[^AB]", "[^a-b]", "[^ .]"}; return c[r.below(5)]; } break;
        case 3: if ((mask & 16) && depth < 2) return "(" + gen_alt(r, mask, depth + 1) + ")"; break;
        default: return esc(rnd_char(r));
      }
    }
  }
  static std::string gen_cat(Rng& r, int mask, int depth) {
    std::string s; int n = 1 + (int)r.below(depth ? 3 : 4);
    for (int i = 0; i < n; i++) {
      s += gen_atom(r, mask, depth);
      if ((mask & 4) && r.chance(1, 4)) s += "*+?"[r.below(3)];
    }
    return s;
  }
  static std::string gen_alt(Rng& r, int mask, int depth) {
    std::string s = gen_cat(r, mask, depth);
    if (mask & 8) while (r.chance(1, 3)) s += "|" + gen_cat(r, mask, depth);
    return s;
  }
  static std::string gen_regex(Rng& r, int mask) {
    std::string s = gen_alt(r, mask, 0);
    if (mask & 32) {
      bool a = r.chance(1, 3), z = r.chance(1, 3);
      if ((a || z) && s.find('|') != std::string::npos) s = "(" + s + ")";
      if (a) s = "^" + s;
      if (z) s += "$";
    }
    return s;
  }

  // plan: knobs sched_seed policy pparam frame_max static serial level
  //  task 0 "page" a=[pgno, subsel, seed, flags(1 erase, 2 row 24), nrows, style]
  //  task 1 "new"  a=[pgno, subsel(0 wildcard, 1 zero, n>1 explicit), casefold, regexp, progress(0 none,1 observe,2 cancel), cancel_n, patsrc, patarg, patlen] s=pattern
  //  task 1 "next" a=[dir(0 backward, 1 forward)]      task 1 "pump" a=[n] searcher yields n times
  //  task 1 "pass" a=[dir, n] vbi_search_next(dir) until not-found, at most 1 + n % 64 calls
  Plan generate(uint64_t seed, const std::string& tier) override {
    Plan p; p.world = name(); p.seed = seed;
    Rng r(seed, "plan");
    p.knobs["sched_seed"] = (int64_t)(r.next() >> 1);
    p.knobs["policy"] = (int64_t)r.below(3);
    p.knobs["pparam"] = (p.knobs["policy"] == 1) ? 30 + (int64_t)r.below(65) : (int64_t)r.below(4);
    p.knobs["frame_max"] = 1 + (int64_t)r.below(16);
    p.knobs["static"] = r.chance(3, 5) ? 1 : 0;
    p.knobs["serial"] = (int64_t)r.below(2);
    p.knobs["level"] = r.chance(1, 2) ? 0 : 1 + (int64_t)r.below(4);
    int big = tier == "thorough" ? 2 : 1;
    // carousel of page numbers: 1-3 magazines, so that "every cached page below / above the start page" is common
    int ncar = 1 + (int)r.below(8);
    int mags[3]; for (int& m : mags) m = 1 + (int)r.below(8);
    int nm = 1 + (int)r.below(3);
    std::vector<int> car;
    for (int i = 0; i < ncar; i++) {
      int lo;
      switch (r.below(8)) {
        case 0: { static const int hx[] = {0x0A, 0x1B, 0xAB, 0xC0, 0xF1, 0x9A, 0xFC, 0xA0}; lo = hx[r.below(8)]; break; }
        case 1: lo = r.chance(1, 2) ? 0x00 : 0x99; break;
        default: lo = to_bcd((int)r.below(100)); break;
      }
      car.push_back(mags[r.below((uint64_t)nm)] * 256 + lo);
    }
    int npages = r.chance(1, 7) ? (int)r.below(2) : 2 + (int)r.below(1 + r.below(13 * (uint64_t)big));
    for (int i = 0; i < npages; i++) {
      Op o; o.task = 0; o.kind = "page";
      int style = r.chance(1, 2) ? 0 : (int)r.below(16);
      o.a = {car[r.below(car.size())], r.chance(2, 3) ? (int64_t)r.below(3) : (int64_t)r.below(100000), (int64_t)r.below(1u << 30), (int64_t)r.below(4), (int64_t)r.below(1 + r.below(9)), style};
      p.ops.push_back(o);
    }
    int nctx = 1 + (int)r.below(3 * (uint64_t)big);
    int re_mask = r.chance(1, 3) ? 127 : (int)r.below(128);
    int64_t prev_start[2] = {0, 0};
    for (int c = 0; c < nctx; c++) {
      Op o; o.task = 1; o.kind = "new";
      int pgno;
      switch (r.below(8)) {
        case 0: pgno = 0x100; break;
        case 1: pgno = 0x8FF; break;
        // (a "page" op transmits page sanitize_pgno(carousel entry): the start page is taken from what is transmitted)
        case 2: case 3: pgno = sanitize_pgno(car[r.below(car.size())]) + (int)r.below(3) - 1; if (pgno < 0x100) pgno = 0x8FF; break;
        case 5: case 6: pgno = sanitize_pgno(car[r.below(car.size())]); break;  // "starting at the start page": the start page itself is cached
        case 4: { static const int e[] = {0x1FF, 0x200, 0x7FF, 0x800, 0x8FE, 0x101}; pgno = e[r.below(6)]; break; }
        default: pgno = 0x100 + (int)r.below(0x800); break;
      }
      bool regexp = r.chance(1, 2);
      std::string pat;
      if (regexp) pat = gen_regex(r, re_mask);
      else { int n = 1 + (int)r.below(6); if (n == 1 && r.chance(2, 3)) n = 3; for (int i = 0; i < n; i++) pat += (char)rnd_char(r); }
      int prog = r.chance(1, 2) ? 0 : 1 + (int)r.below(2);
      // patsrc 1: literal taken from the displayed text of a cached page (patarg selects page/offset, patlen the length)
      // patsrc 2: the same, at a place where a partial match overlaps the occurrence
      o.a = {pgno - 0x100, (int64_t)(r.chance(1, 2) ? 0 : r.below(5)), (int64_t)r.below(2), regexp ? 1 : 0, prog, 1 + (int64_t)r.below(6), (!regexp && r.chance(1, 2)) ? 1 + (int64_t)r.below(2) : 0, (int64_t)r.below(100000), 2 + (int64_t)r.below(10)};
      o.s = pat;
      // the same start page (and subpage selector) as the previous context: where a pass starts is a function of the
      // start page and the direction, not of what a context did before
      if (c > 0 && r.chance(1, 2)) { o.a[0] = prev_start[0]; o.a[1] = prev_start[1]; }
      prev_start[0] = o.a[0]; prev_start[1] = o.a[1];
      p.ops.push_back(o);
      if (r.chance(3, 5)) {
        // a long-lived context: whole passes (run to not-found) followed by further passes in the same or the opposite
        // direction, with single calls (a pass left in the middle, a direction change in the middle) in between
        int nseg = 1 + (int)r.below(6);
        int dir = (int)r.below(2);
        for (int sg = 0; sg < nseg; sg++) {
          if (sg && r.chance(3, 5)) dir ^= 1;
          if (r.chance(3, 4)) { Op x; x.task = 1; x.kind = "pass"; x.a = {dir, r.chance(3, 4) ? 39 : (int64_t)r.below(40)}; p.ops.push_back(x); }
          else { int k = 1 + (int)r.below(4); for (int i = 0; i < k; i++) { Op x; x.task = 1; x.kind = "next"; x.a = {dir}; p.ops.push_back(x); } }
          if (r.chance(1, 4)) { Op y; y.task = 1; y.kind = "pump"; y.a = {1 + (int64_t)r.below(40)}; p.ops.push_back(y); }
        }
        continue;
      }
      int n = 1 + (int)r.below(r.chance(1, 3) ? 8 : 24);
      int dir = (int)r.below(2);
      int flip = (int)r.below(4);  // 0: never
      for (int i = 0; i < n; i++) {
        if (flip && r.chance(1, 2u + 2u * (unsigned)flip)) dir ^= 1;
        Op x; x.task = 1; x.kind = "next"; x.a = {dir}; p.ops.push_back(x);
        if (r.chance(1, 4)) { Op y; y.task = 1; y.kind = "pump"; y.a = {1 + (int64_t)r.below(40)}; p.ops.push_back(y); }
      }
    }
    return p;
  }

  // ---- decoder side
  RunCtx* ctx = nullptr;
  vbi_decoder* dec = nullptr;
  double ts = 5000.0;
  std::vector<vbi_sliced> frame;
  int frame_max = 4;
  static C17* g;

  static void handler(vbi_event* ev, void*) {
    HarnessScope hs;
    if (ev->type == VBI_EVENT_TTX_PAGE) g->ctx->log("event page %x.%x", ev->ev.ttx_page.pgno, ev->ev.ttx_page.subno);
    else if (ev->type == VBI_EVENT_NETWORK) g->ctx->fail("oracle:search-network-change", "VBI_EVENT_NETWORK raised although one network with a consistent header is transmitting");
  }
  void flush() {
    if (frame.empty()) return;
    ts += 0.04;
    budget_begin("vbi_decode", 20000000);
    { SutScope ss; vbi_decode(dec, frame.data(), (int)frame.size(), ts); }
    budget_end();
    frame.clear();
  }
  void push(const uint8_t b[42]) {
    vbi_sliced s; memset(&s, 0, sizeof s);
    s.id = VBI_SLICED_TELETEXT_B; s.line = 7 + (uint32_t)frame.size();
    memcpy(s.data, b, 42);
    frame.push_back(s);
    if ((int)frame.size() >= frame_max) flush();
  }

  // ---- model
  std::map<int, MPage> store;  // key pgno<<16 | subno: the walk order of the statement ("page order")
  std::map<int, Derived> derived;  // same key, valid for store[key].version
  uint32_t version = 0;            // bumped at every cache update

  void store_page(int pgno, int subno, bool erase, const std::map<int, std::vector<uint8_t>>& rows) {
    int key = (pgno << 16) | subno;
    MPage np;
    auto it = store.find(key);
    if (it != store.end() && !erase) np = it->second;  // rows not retransmitted keep their content
    np.pgno = pgno; np.subno = subno; np.version = ++version;
    for (auto& kv : rows) { memcpy(np.img.rows[kv.first], kv.second.data(), 40); np.img.have_row[kv.first] = true; }
    // which earlier versions the new one replaces (EN 300 706 A.1): a page without subpages or a clock page has one version
    std::vector<int> kill;
    for (auto& kv : store) {
      if ((kv.first >> 16) != pgno) continue;
      int s = kv.first & 0xFFFF;
      if (is_bcd(pgno) ? (subno == 0 || subno >= 0x100 || s == 0 || s >= 0x100 || s == subno) : ((s & 15) == (subno & 15))) kill.push_back(kv.first);
    }
    for (int k : kill) { store.erase(k); derived.erase(k); }
    store[key] = np;
    derived.erase(key);
  }
  const Derived& der(int key) {
    auto it = derived.find(key);
    if (it == derived.end()) { Derived d; derive(store[key], d); it = derived.insert({key, d}).first; }
    return it->second;
  }

  // ---- search context
  struct Cand { std::vector<int> order; int idx = -1; bool first_partial = false; int prog = -1; };
  enum { PASS_ORIGIN = 0, PASS_TURN = 1, PASS_ANYWHERE = 2 };
  struct SCtx {
    vbi_search* s = nullptr;
    Regex re; bool fold = false, regexp = false, overlap = false; std::string shown;
    int S = 0;            // start key as the walk sees it (wildcard / zero subno -> 0)
    bool any_sub = false;
    int dir = 0;          // direction of the pass in progress, 0 none
    bool turned = false;  // a direction change happened in this context
    bool strict = false;  // the pass in progress is checked for order and completeness
    int pass_kind = PASS_ORIGIN;  // where the pass in progress starts: the start page of vbi_search_new(), the page of a direction change, unknown
    uint32_t pass_version = 0;    // cache version when the pass in progress began
    int passes_done = 0, last_done_dir = 0;  // passes of this context that ran to not-found, direction of the last one
    std::vector<Cand> cands;
    std::vector<Cand> excl;  // readings of the start point that an earlier pass from the same start point has ruled out
    int cur_key = -1, cur_i0 = -1;  // last returned page and start of its highlighted occurrence (index into d1)
    uint32_t cur_version = 0;
    std::map<int, std::pair<uint32_t, int>> cls;  // key -> (version, class)
    int prog_mode = 0, cancel_n = 0, prog_calls = 0; bool canceled_now = false; int cancel_key = -1;
    std::vector<int> prog_keys;  // pages reported by the progress callback during the current call
    uint32_t last_version = 0; bool had_call = false;
  };
  SCtx* sc = nullptr;

  static vbi_bool progress_cb(vbi_page* pg) {
    HarnessScope hs;
    SCtx* c = g->sc;
    int key = (pg->pgno << 16) | pg->subno;
    c->prog_keys.push_back(key);
    c->prog_calls++;
    bool go = !(c->prog_mode == 2 && c->cancel_n > 0 && c->prog_calls % c->cancel_n == 0);
    g->ctx->log("progress %x.%x -> %d", pg->pgno, pg->subno, go);
    if (!go) { c->canceled_now = true; c->cancel_key = key; g->ctx->count("fault_progress_cancel"); }
    return go;
  }

  int classify(SCtx& c, int key) {
    auto it = c.cls.find(key);
    const MPage& mp = store[key];
    if (it != c.cls.end() && it->second.first == mp.version) return it->second.second;
    const Derived& d = der(key);
    int r;
    Matcher m1(c.re, d.t1, c.fold, false), m1n(c.re, d.t1, c.fold, true);
    if (!d.has_dh) {
      r = m1.exists() ? MUST : (c.regexp && m1n.exists()) ? MAY : MUSTNOT;
    } else {
      Matcher m2(c.re, d.t2, c.fold, false), m2n(c.re, d.t2, c.fold, true), m3(c.re, d.t3, c.fold, false), m3n(c.re, d.t3, c.fold, true);
      bool all = m1.exists() && m2.exists() && m3.exists();
      r = all ? MUST : (m1n.exists() || m2n.exists() || m3n.exists()) ? MAY : MUSTNOT;
      if (r == MAY) ctx->count("double_height_ambiguous");
    }
    // hexadecimal page numbers are data pages unless a page inventory says otherwise: vbi_fetch_vt_page() does not
    // display them either.  The statement names them for termination only -> accepted when returned with a real match.
    if (!is_bcd(mp.pgno) && r == MUST) r = MAY;
    // KNOWN-DEFECT leniency (not from the statement): a regular expression whose symbols overlap is matched incompletely
    // by ure.c's first-transition automaton; completeness is not demanded for it, everything else is
    if (c.overlap && r == MUST) { r = MAY; ctx->count("overlap_regex_completeness_waived"); }
    c.cls[key] = {mp.version, r};
    return r;
  }

  static std::vector<int> order_from(const std::map<int, MPage>& st, int S, int dir, bool incl) {
    // forward: keys >= S ascending, then keys < S.  backward: keys < S (incl: <= S) descending, then the rest descending.
    std::vector<int> keys; for (auto& kv : st) keys.push_back(kv.first);
    std::vector<int> a, b;
    if (dir > 0) { for (int k : keys) (k >= S ? a : b).push_back(k); }
    else { for (auto it = keys.rbegin(); it != keys.rend(); ++it) ((incl ? *it <= S : *it < S) ? a : b).push_back(*it); }
    a.insert(a.end(), b.begin(), b.end());
    return a;
  }
  static std::vector<std::vector<int>> order_anywhere(const std::map<int, MPage>& st, int dir) {
    // ascending (descending) page order wrapping once, the first page left open: every rotation of the key list
    std::vector<int> keys; for (auto& kv : st) keys.push_back(kv.first);
    if (dir < 0) std::reverse(keys.begin(), keys.end());
    std::vector<std::vector<int>> out;
    for (size_t r = 0; r < keys.size(); r++) { std::vector<int> o(keys.begin() + (long)r, keys.end()); o.insert(o.end(), keys.begin(), keys.begin() + (long)r); out.push_back(o); }
    if (out.empty()) out.push_back(std::vector<int>());
    return out;
  }
  // The start point is a function of the arguments of vbi_search_new() and the direction ("Another vbi_search_next()
  // will restart from the original starting point"): which of the accepted readings of "starting at the start page" a
  // backward pass follows must not depend on what the context, or another context, did before.  Key: start page,
  // wildcard flag, direction, cache version; value: the visiting orders that explain every pass seen so far.
  std::map<std::array<int64_t, 4>, std::set<std::vector<int>>> readings;
  static std::vector<int> order_turn(const std::map<int, MPage>& st, int C, int dir) {
    // after a direction change at page C: the rest of C first, then away from C in the new direction, wrapping, up to C
    std::vector<int> keys; for (auto& kv : st) keys.push_back(kv.first);
    std::vector<int> a, b, out;
    if (st.count(C)) out.push_back(C);
    if (dir > 0) { for (int k : keys) { if (k > C) a.push_back(k); else if (k < C) b.push_back(k); } }
    else { for (auto it = keys.rbegin(); it != keys.rend(); ++it) { if (*it < C) a.push_back(*it); else if (*it > C) b.push_back(*it); } }
    out.insert(out.end(), a.begin(), a.end()); out.insert(out.end(), b.begin(), b.end());
    return out;
  }

  // highlighted cells of the returned page must be exactly the cells of a contiguous piece of the displayed text that
  // the pattern matches.  Returns the start index in d1 or -1 after reporting.
  int check_highlight(SCtx& c, int key, const vbi_page* pg) {
    const Derived& d = der(key);
    bool hl[26][41]; memset(hl, 0, sizeof hl);
    int nhl = 0;
    for (int row = 0; row < 25; row++) for (int col = 0; col < 40; col++) {
      const vbi_char& a = pg->text[row * pg->columns + col];
      if (a.foreground == 32 + VBI_BLACK && a.background == 32 + VBI_YELLOW) { hl[row][col] = true; nhl++; }
    }
    int pgno = key >> 16, subno = key & 0xFFFF;
    if (ctx->verbose) {
      for (int row = 1; row < 25; row++) {
        std::string a, b, m;
        for (int col = 0; col < 40; col++) { const vbi_char& x = pg->text[row * pg->columns + col]; a += (x.unicode >= 0x20 && x.unicode < 0x7F) ? (char)x.unicode : '?'; b += hl[row][col] ? '^' : ' '; m += (char)('0' + x.size); }
        bool any = b.find('^') != std::string::npos;
        fprintf(stderr, "    row %2d |%s| size %s\n", row, a.c_str(), m.c_str());
        if (any) fprintf(stderr, "           |%s|\n", b.c_str());
      }
    }
    if (!nhl) { ctx->fail("oracle:search-highlight", "pattern '%s': page %x.%x returned as found but no cell is highlighted", c.shown.c_str(), pgno, subno); return -1; }
    int i0 = -1, i1 = -1;
    for (size_t i = 0; i < d.d1.size(); i++) { const Entry& e = d.d1[i]; if (e.col >= 0 && hl[e.row][e.col]) { if (i0 < 0) i0 = (int)i; i1 = (int)i; } }
    if (i0 < 0) { ctx->fail("oracle:search-highlight", "pattern '%s': page %x.%x: highlighted cells are not character cells of rows 1-23", c.shown.c_str(), pgno, subno); return -1; }
    bool want[26][41]; memset(want, 0, sizeof want);
    for (int i = i0; i <= i1; i++) {
      const Entry& e = d.d1[(size_t)i]; if (e.col < 0) continue;
      for (int w = 0; w < e.w; w++) { want[e.row][e.col + w] = true; if (e.dh) want[e.row + 1][e.col + w] = true; }
    }
    for (int row = 0; row < 25; row++) for (int col = 0; col < 40; col++)
      if (want[row][col] != hl[row][col]) {
        ctx->fail("oracle:search-highlight", "pattern '%s': page %x.%x row %d col %d is %shighlighted but the highlighted text runs from row %d col %d to row %d col %d", c.shown.c_str(), pgno, subno, row, col,
                  hl[row][col] ? "" : "not ", d.d1[(size_t)i0].row, d.d1[(size_t)i0].col, d.d1[(size_t)i1].row, d.d1[(size_t)i1].col);
        return -1;
      }
    // the highlighted text must be what the pattern matches; a row separator matched by '.' or a negated class at
    // either end has no cell, so the ends may extend over one separator (most lenient reading: '.' matches the separator)
    Matcher m(c.re, d.t1, c.fold, true);
    bool ok = false;
    for (int ds = 0; ds < 2 && !ok; ds++) for (int de = 0; de < 2 && !ok; de++) {
      int s = i0 - ds, e = i1 + 1 + de;
      if (s < 0 || e > (int)d.d1.size()) continue;
      if (ds && d.d1[(size_t)s].col >= 0) continue;
      if (de && d.d1[(size_t)e - 1].col >= 0) continue;
      if (m.full(s, e)) ok = true;
    }
    if (!ok) {
      std::string txt; for (int i = i0; i <= i1; i++) txt += d.d1[(size_t)i].col < 0 ? '/' : (char)d.d1[(size_t)i].u;
      ctx->fail("oracle:search-highlight", "pattern '%s'%s%s: page %x.%x highlights '%s' (row %d col %d), which the pattern does not match", c.shown.c_str(), c.regexp ? " (regex)" : "", c.fold ? " (casefold)" : "",
                pgno, subno, txt.c_str(), d.d1[(size_t)i0].row, d.d1[(size_t)i0].col);
      return -1;
    }
    return i0;
  }

  uint64_t max_edges_seen = 0;

  void run(const Plan& plan, RunCtx& c) override {
    static bool warmed = false;
    if (!warmed) {
      warmed = true; vbi_decoder* d = vbi_decoder_new();
      uint16_t pat[2] = {'A', 0}; vbi_search* s = vbi_search_new(d, 0x100, VBI_ANY_SUBNO, pat, TRUE, TRUE, nullptr); vbi_page* pg; if (s) { vbi_search_next(s, &pg, 1); vbi_search_delete(s); }
      vbi_decoder_delete(d);
    }
    alloc_track_reset();
    ctx = &c; g = this;
    store.clear(); derived.clear(); readings.clear(); version = 0; frame.clear(); ts = 5000.0; sc = nullptr; max_edges_seen = 0;
    frame_max = (int)(llabs(plan.knob("frame_max", 4)) % 17); if (frame_max < 1) frame_max = 1;
    bool serial = plan.knob("serial") & 1;
    bool stat = plan.knob("static") & 1;
    Sched sched(c, (uint64_t)plan.knob("sched_seed", (int64_t)plan.seed), (Policy)(llabs(plan.knob("policy")) % 3), (int)plan.knob("pparam"));
    { SutScope ss;
      dec = vbi_decoder_new();
      vbi_event_handler_register(dec, VBI_EVENT_TTX_PAGE | VBI_EVENT_NETWORK, handler, nullptr);
      int lv = (int)(llabs(plan.knob("level")) % 5);
      static const int lvl[5] = {0, VBI_WST_LEVEL_1, VBI_WST_LEVEL_1p5, VBI_WST_LEVEL_2p5, VBI_WST_LEVEL_3p5};
      if (lv) vbi_teletext_set_level(dec, lvl[lv]);
    }
    std::vector<const Op*> pages, sops;
    for (auto& op : plan.ops) { if (op.kind == "page") pages.push_back(&op); else if (op.kind == "new" || op.kind == "next" || op.kind == "pass" || op.kind == "pump") sops.push_back(&op); }
    bool bc_done = pages.empty(); Task* waiter = nullptr;
    int n_success = 0, n_notfound = 0, n_empty = 0, n_calls = 0, n_turns = 0, n_strict_calls = 0;

    // ------------------------------------------------------------ broadcaster
    if (!pages.empty()) sched.spawn("broadcaster", [&] {
      for (const Op* op : pages) {
        if (c.failed) break;
        int pgno = sanitize_pgno(op->arg(0));
        int subno = subno_for(pgno, op->arg(1));
        int mag = (pgno >> 8) & 7; if (!mag) mag = 8;
        Rng r((uint64_t)op->arg(2), "content");
        int flags = (int)op->arg(3);
        bool erase = flags & 1;
        int nrows = (int)(llabs(op->arg(4)) % 24);
        int style = (int)(llabs(op->arg(5)) % 16);
        uint8_t text[32]; header_text(pgno, text);
        unsigned ctrl = (erase ? ttx::C4_ERASE : 0) | (serial ? ttx::C11_SERIAL : 0);
        c.log("tx page %x.%x erase=%d rows=%d style=%d", pgno, subno, erase, nrows, style);
        push(ttx::header(mag, pgno & 0xFF, subno, ctrl, text).b);
        sched.yield();
        std::vector<int> ys; for (int y = 1; y <= 23; y++) ys.push_back(y);
        for (size_t i = ys.size(); i > 1; i--) std::swap(ys[i - 1], ys[r.below(i)]);
        ys.resize((size_t)nrows);
        if (flags & 2) ys.push_back(24);
        std::map<int, std::vector<uint8_t>> rows;
        for (int y : ys) {
          if (c.failed) return;
          uint8_t ch[40]; gen_row(r, style, ch);
          push(ttx::row(mag, y, ch).b);
          rows[y] = std::vector<uint8_t>(ch, ch + 40);
          sched.yield();
        }
        // a time-filling header (page number FF) of the same magazine terminates the page in serial and parallel mode
        uint8_t ft[32]; header_text((mag << 8) | 0xFF, ft);
        push(ttx::header(mag, 0xFF, 0x3F7F, serial ? ttx::C11_SERIAL : 0, ft).b);
        flush();
        store_page(pgno, subno, erase, rows);
        c.log("cached %x.%x (model has %zu pages)", pgno, subno, store.size());
        sched.yield();
      }
      bc_done = true;
      if (waiter) { Task* w = waiter; waiter = nullptr; sched.wake(w); }
    });

    // ------------------------------------------------------------ searcher
    SCtx sctx;
    auto end_ctx = [&] {
      if (sctx.s) { budget_begin("vbi_search_delete", 5000000); { SutScope ss; vbi_search_delete(sctx.s); } budget_end(); }
      sctx = SCtx(); sc = nullptr;
    };
    // evaluate one event against every candidate order; candidates that cannot explain it are dropped
    auto filter = [&](std::vector<Cand>& cands, const char* what, int key, bool is_return, std::string& why) {
      std::vector<Cand> keep;
      for (Cand& cd : cands) {
        int j = -1;
        for (int k = std::max(cd.idx, 0); k < (int)cd.order.size(); k++) if (cd.order[(size_t)k] == key) { j = k; break; }
        char t[256];
        if (j < 0 || j < cd.idx) { snprintf(t, sizeof t, "%s %x.%x is not ahead in the pass (visited before or out of order)", what, key >> 16, key & 0xFFFF); if (why.empty()) why = t; continue; }
        bool missed = false;
        if (is_return) for (int k = cd.idx + 1; k < j; k++) {
          if (k == 0 && cd.first_partial) continue;
          if (classify(sctx, cd.order[(size_t)k]) == MUST) { snprintf(t, sizeof t, "missed:%s %x.%x although page %x.%x, which comes first, contains a match", what, key >> 16, key & 0xFFFF, cd.order[(size_t)k] >> 16, cd.order[(size_t)k] & 0xFFFF); if (why.empty()) why = t; missed = true; break; }
        }
        if (missed) continue;
        Cand n = cd; if (is_return) n.idx = j; else n.prog = j;
        keep.push_back(n);
      }
      cands = keep;
      return !keep.empty();
    };
    auto filter_progress = [&](std::vector<Cand>& cands, int k) {
      std::vector<Cand> keep;
      for (Cand& cd : cands) { int j = -1; for (int q = std::max(cd.prog, 0); q < (int)cd.order.size(); q++) if (cd.order[(size_t)q] == k) { j = q; break; } if (j >= 0) { cd.prog = j; keep.push_back(cd); } }
      cands = keep;
      return !keep.empty();
    };
    // not-found: candidates under which a page that must be found has not been visited yet are dropped
    auto filter_notfound = [&](std::vector<Cand>& cands, std::string& miss) {
      std::vector<Cand> keep;
      for (Cand& cd : cands) {
        bool bad = false;
        for (int k = cd.idx + 1; k < (int)cd.order.size(); k++) {
          if (k == 0 && cd.first_partial) continue;
          if (classify(sctx, cd.order[(size_t)k]) == MUST) { char t[96]; snprintf(t, sizeof t, "%x.%x", cd.order[(size_t)k] >> 16, cd.order[(size_t)k] & 0xFFFF); if (miss.empty()) miss = t; bad = true; break; }
        }
        if (!bad) keep.push_back(cd);
      }
      cands = keep;
      return !keep.empty();
    };
    auto start_moved = [&](int dir, const char* what, int key) {
      c.fail("oracle:search-start-moved", "pattern '%s' dir %d from %x.%x%s, pass %d of the context: %s (%x.%x) fits the page order only under a reading of 'starting at the start page' that another pass in this "
             "direction from the same start page over the same cache has ruled out: where a pass starts depends on what the search context did before", sctx.shown.c_str(), dir, sctx.S >> 16, sctx.S & 0xFFFF,
             sctx.any_sub ? " (any subpage)" : "", sctx.passes_done + 1, what, key >> 16, key & 0xFFFF);
    };
    auto record_reading = [&] {
      if (!sctx.strict || sctx.pass_kind != PASS_ORIGIN || sctx.cands.empty() || c.failed) return;
      std::set<std::vector<int>> ok; for (Cand& cd : sctx.cands) ok.insert(cd.order);
      readings[std::array<int64_t, 4>{sctx.S, sctx.any_sub ? 1 : 0, sctx.dir, (int64_t)sctx.pass_version}] = ok;
    };

    // one vbi_search_next() call and its evaluation; returns the status, or -100 after a failure
    auto do_next = [&](int dir) -> int {
      bool updated = sctx.had_call && sctx.last_version != version;
      if (updated) { c.count("fault_update_between_calls"); if (sctx.cur_key >= 0 && (!store.count(sctx.cur_key) || store[sctx.cur_key].version != sctx.cur_version)) c.count("fault_current_page_replaced"); }
      // the page returned last is still cached as it was returned: the position inside it is still meaningful
      bool same_page_progress_checkable = sctx.cur_key >= 0 && store.count(sctx.cur_key) && store[sctx.cur_key].version == sctx.cur_version;
      if (sctx.strict && version != sctx.pass_version) {
        // The cache changed in the middle of the pass.  For "pages replaced between calls" the statement promises that the
        // call terminates; which of the old and new pages the rest of the pass owes is not said -> the rest of this pass
        // gets the per-return checks only.  The next pass (after not-found or a direction change) is judged in full again.
        sctx.strict = false; sctx.cands.clear(); sctx.excl.clear(); c.count("pass_left_to_per_return_checks_by_update");
      }
      if (sctx.dir == 0) {
        // A new pass.  search.h, VBI_SEARCH_NOT_FOUND: "Another vbi_search_next() will restart from the original starting
        // point", so a pass after not-found, in either direction, is the pass a fresh context would make.
        sctx.dir = dir; sctx.cands.clear(); sctx.excl.clear(); sctx.cur_key = -1; sctx.cur_i0 = -1;
        sctx.pass_version = version; sctx.strict = true;
        if (sctx.passes_done) c.count(dir == sctx.last_done_dir ? "pass_after_completed_pass_same_dir" : "pass_after_completed_pass_other_dir");
        if (!sctx.turned) {
          sctx.pass_kind = PASS_ORIGIN;
          if (dir > 0) { Cand a; a.order = order_from(store, sctx.S, +1, false); sctx.cands.push_back(a); }
          else {
            // backward: the documentation makes the start page the LAST page visited, the statement lets the pass START
            // there, and with a wildcard subpage the start page's subpages come first: all three orders are accepted ...
            int S = sctx.S, Sany = (S & ~0xFFFF) | 0x3F7F;
            Cand a; a.order = order_from(store, S, -1, false); sctx.cands.push_back(a);
            Cand b; b.order = order_from(store, S, -1, true); if (b.order != a.order) sctx.cands.push_back(b);
            Cand d; d.order = order_from(store, Sany, -1, true); if (d.order != a.order && d.order != b.order) sctx.cands.push_back(d);
          }
          // ... but it is one and the same order for every pass in this direction from this start page while the cache
          // does not change, whatever the context (or an earlier context with the same start page) did before
          auto it = readings.find(std::array<int64_t, 4>{sctx.S, sctx.any_sub ? 1 : 0, dir, (int64_t)version});
          if (it != readings.end()) {
            std::vector<Cand> keep;
            for (Cand& cd : sctx.cands) (it->second.count(cd.order) ? keep : sctx.excl).push_back(cd);
            sctx.cands = keep;
            c.count(sctx.excl.empty() ? "start_point_seen_before" : "start_point_pinned_by_earlier_pass");
          }
        } else {
          // After a direction change in the middle of a pass the implementation restarts later passes at the page where the
          // direction last changed, while search.h promises the original starting point, and the statement does not say what
          // the start page of such a pass is: any first page is accepted.  Still demanded, as for every pass: ascending
          // (descending) page order wrapping once, each page once, every page with a match, then not-found.
          sctx.pass_kind = PASS_ANYWHERE;
          for (auto& o : order_anywhere(store, dir)) { Cand a; a.order = o; sctx.cands.push_back(a); }
          c.count("pass_restarted_in_turned_context");
        }
      } else if (dir != sctx.dir) {
        // direction change: a new pass in the other direction starting at the current position
        n_turns++; c.count("direction_changes");
        sctx.dir = dir; sctx.turned = true; sctx.cands.clear(); sctx.excl.clear();
        sctx.pass_kind = PASS_TURN; sctx.pass_version = version;
        sctx.strict = sctx.cur_key >= 0;
        if (sctx.strict) { Cand a; a.order = order_turn(store, sctx.cur_key, dir); a.idx = store.count(sctx.cur_key) ? 0 : -1; a.first_partial = true; sctx.cands.push_back(a); }
      }
      sctx.prog_keys.clear(); sctx.canceled_now = false;
      for (Cand& cd : sctx.cands) cd.prog = cd.idx;
      for (Cand& cd : sctx.excl) cd.prog = cd.idx;
      vbi_page* pg = (vbi_page*)(uintptr_t)0x10;  // must be overwritten
      int st;
      // bounded liveness: one call walks at most twice around the 0x800 page numbers, probes every subpage number of
      // every cached page number and formats every cached page at most twice
      uint64_t budget = 40000000ull + 6000000ull * (uint64_t)store.size();
      uint64_t e0 = edges_executed();
      budget_begin("vbi_search_next", budget);
      { SutScope s2; st = vbi_search_next(sctx.s, &pg, dir); }
      budget_end();
      uint64_t used = edges_executed() - e0;
      if (used > max_edges_seen) max_edges_seen = used;
      n_calls++; if (sctx.strict) { n_strict_calls++; if (!stat) c.count("strict_calls_between_updates"); }
      sctx.had_call = true; sctx.last_version = version;
      c.log("search_next dir=%d -> %d %s", dir, st, st == VBI_SEARCH_SUCCESS && pg ? "page" : "");
      c.state(hash_mix((uint64_t)st + 8, hash_mix((uint64_t)store.size(), (uint64_t)(dir + 1) * 4 + (sctx.strict ? 1 : 0) + (sctx.turned ? 2 : 0))));
      std::string why;
      // progress reports: every page scanned, in pass order
      if (sctx.strict) for (int k : sctx.prog_keys) {
        if (!store.count(k)) { c.fail("oracle:search-progress", "progress callback reported %x.%x which is not cached", k >> 16, k & 0xFFFF); break; }
        filter_progress(sctx.excl, k);
        if (!filter_progress(sctx.cands, k)) {
          if (!sctx.excl.empty()) start_moved(dir, "the page reported by the progress callback", k);
          else c.fail("oracle:search-order", "pattern '%s' dir %d from %x.%x: progress callback reported page %x.%x out of page order", sctx.shown.c_str(), dir, sctx.S >> 16, sctx.S & 0xFFFF, k >> 16, k & 0xFFFF);
          break;
        }
      }
      if (c.failed) return -100;
      switch (st) {
        case VBI_SEARCH_SUCCESS: {
          n_success++;
          if (!pg || pg == (vbi_page*)(uintptr_t)0x10) { c.fail("oracle:search-status", "VBI_SEARCH_SUCCESS without a page"); break; }
          int key = (pg->pgno << 16) | pg->subno;
          c.log("found %x.%x", pg->pgno, pg->subno);
          if (!store.count(key)) { c.fail("oracle:search-uncached", "pattern '%s': returned page %x.%x which is not in the cache", sctx.shown.c_str(), pg->pgno, pg->subno); break; }
          int cl = classify(sctx, key);
          if (cl == MUSTNOT) { c.fail("oracle:search-false-positive", "pattern '%s'%s%s: returned page %x.%x whose displayed rows 1-23 contain no match", sctx.shown.c_str(), sctx.regexp ? " (regex)" : "", sctx.fold ? " (casefold)" : "", pg->pgno, pg->subno); break; }
          if (cl == MAY) c.count("returned_may_page");
          int i0 = check_highlight(sctx, key, pg);
          if (i0 < 0) break;
          if (key == sctx.cur_key && same_page_progress_checkable && !sctx.canceled_now && sctx.cur_i0 >= 0) {
            // the same page again: must be another occurrence further on in the direction of travel
            c.count("same_page_again");
            if (dir > 0 ? i0 <= sctx.cur_i0 : i0 >= sctx.cur_i0) { c.fail("oracle:search-repeat", "pattern '%s' dir %d: page %x.%x returned again with an occurrence that is not %s the previous one", sctx.shown.c_str(), dir, pg->pgno, pg->subno, dir > 0 ? "after" : "before"); break; }
          }
          if (sctx.strict) {
            std::string why2;
            filter(sctx.excl, "returned", key, true, why2);
            if (!filter(sctx.cands, "returned", key, true, why)) {
              if (!sctx.excl.empty()) start_moved(dir, "the returned page", key);
              else if (why.compare(0, 7, "missed:") == 0) c.fail("oracle:search-missed", "pattern '%s'%s%s dir %d from %x.%x: %s", sctx.shown.c_str(), sctx.regexp ? " (regex)" : "", sctx.fold ? " (casefold)" : "", dir, sctx.S >> 16, sctx.S & 0xFFFF, why.c_str() + 7);
              else c.fail("oracle:search-order", "pattern '%s' dir %d from %x.%x: %s", sctx.shown.c_str(), dir, sctx.S >> 16, sctx.S & 0xFFFF, why.c_str());
              break;
            }
            record_reading();
          }
          sctx.cur_key = key; sctx.cur_i0 = i0; sctx.cur_version = store[key].version;
          break;
        }
        case VBI_SEARCH_NOT_FOUND: {
          n_notfound++;
          if (sctx.strict) {
            bool had = !sctx.cands.empty();
            std::string miss, miss2;
            filter_notfound(sctx.excl, miss2);
            if (had && !filter_notfound(sctx.cands, miss)) {
              if (!sctx.excl.empty()) start_moved(dir, "not-found at this point of the pass from the start page", sctx.S);
              else c.fail("oracle:search-missed", "pattern '%s'%s%s dir %d from %x.%x: not-found reported although page %s, not yet visited in this pass, contains a match", sctx.shown.c_str(), sctx.regexp ? " (regex)" : "", sctx.fold ? " (casefold)" : "", dir, sctx.S >> 16, sctx.S & 0xFFFF, miss.c_str());
              break;
            }
            record_reading();
            c.count("strict_passes_completed");
            if (sctx.pass_kind == PASS_ANYWHERE) c.count("strict_passes_completed_in_turned_context");
            if (!stat) c.count("strict_passes_completed_between_updates");
          }
          sctx.passes_done++; sctx.last_done_dir = dir;
          sctx.dir = 0; sctx.cands.clear(); sctx.excl.clear(); sctx.cur_key = -1; sctx.cur_i0 = -1;
          break;
        }
        case VBI_SEARCH_CACHE_EMPTY:
          n_empty++;
          // "No pages in the cache"
          if (!store.empty()) { c.fail("oracle:search-cache-empty", "VBI_SEARCH_CACHE_EMPTY although %zu pages are cached", store.size()); break; }
          break;
        case VBI_SEARCH_CANCELED: {
          if (!sctx.canceled_now) { c.fail("oracle:search-status", "VBI_SEARCH_CANCELED although the progress function did not cancel"); break; }
          // search.h: "pg points to the current page as in success case" - the statement does not cover cancelling; probe only
          if (!pg) c.count("canceled_pg_null");
          int key = sctx.cancel_key;
          if (sctx.strict) {
            // the cancelled page is searched again by the next call
            for (Cand& cd : sctx.cands) if (cd.prog >= 0 && cd.prog > cd.idx) cd.idx = cd.prog - 1;
            for (Cand& cd : sctx.excl) if (cd.prog >= 0 && cd.prog > cd.idx) cd.idx = cd.prog - 1;
            record_reading();
          }
          if (key != sctx.cur_key) { sctx.cur_key = key; sctx.cur_i0 = -1; sctx.cur_version = store.count(key) ? store[key].version : 0; }
          break;
        }
        default:
          c.fail("oracle:search-status", "vbi_search_next returned %d", st);
          break;
      }
      if (c.failed) return -100;
      if (st != VBI_SEARCH_CANCELED && sctx.canceled_now) { c.fail("oracle:search-status", "progress function cancelled but vbi_search_next returned %d", st); return -100; }
      if (store.empty() && st != VBI_SEARCH_CACHE_EMPTY && st != VBI_SEARCH_NOT_FOUND) { c.fail("oracle:search-cache-empty", "status %d on an empty cache", st); return -100; }
      sched.yield();
      return st;
    };

    if (!sops.empty()) sched.spawn("searcher", [&] {
      if (stat) while (!bc_done) { waiter = sched.current(); sched.block(); }
      for (const Op* op : sops) {
        if (c.failed) break;
        if (op->kind == "pump") { int n = (int)(llabs(op->arg(0)) % 64); for (int i = 0; i < n && !bc_done; i++) sched.yield(); continue; }
        if (op->kind == "new") {
          end_ctx();
          int pgno = 0x100 + (int)(llabs(op->arg(0)) % 0x800);
          int ss = (int)(llabs(op->arg(1)) % 100);
          int subno = ss == 0 ? VBI_ANY_SUBNO : ss == 1 ? 0 : to_bcd(1 + (ss - 2) % 79);
          sctx.fold = op->arg(2) & 1; sctx.regexp = op->arg(3) & 1;
          sctx.prog_mode = (int)(llabs(op->arg(4)) % 3); sctx.cancel_n = 1 + (int)(llabs(op->arg(5)) % 8);
          std::vector<uint16_t> pat; for (unsigned char ch : op->s) pat.push_back(ch);
          if (!sctx.regexp && llabs(op->arg(6)) % 3 == 2 && !store.empty()) {
            // literal cut from a cached page at a place where an attempt that starts p characters earlier matches beyond
            // the real start and then fails (text "aaab", pattern "aab"): a matcher that resumes behind a failed attempt
            // instead of one character after its start misses the occurrence
            auto it = store.begin(); std::advance(it, (long)(llabs(op->arg(7)) % (int64_t)store.size()));
            const Derived& d = der(it->first);
            const auto& t = d.t1;
            size_t n = t.size(), start = n ? (size_t)(llabs(op->arg(7)) / 7) % n : 0;
            bool done = false;
            for (size_t step = 0; step < n && !done; step++) {
              size_t off = (start + step) % n;
              for (size_t L = 3 + (size_t)(llabs(op->arg(8)) % 6); L >= 3 && !done; L--) {
                if (off + L > n) continue;
                bool sep = false; for (size_t k = 0; k < L; k++) if (t[off + k] == 0x0A) sep = true;
                if (sep) continue;
                for (size_t p2 = 1; p2 < L && p2 <= off && !done; p2++) {
                  size_t k = 0; while (k < L && t[off - p2 + k] == t[off + k] && t[off - p2 + k] != 0x0A) k++;
                  if (k > p2 && k < L) { pat.assign(t.begin() + (long)off, t.begin() + (long)(off + L)); done = true; c.count("pattern_behind_partial_match"); }
                }
              }
            }
          } else if (!sctx.regexp && llabs(op->arg(6)) % 3 == 1 && !store.empty()) {
            // literal copied from the displayed text of a cached page (may span double width characters)
            auto it = store.begin(); std::advance(it, (long)(llabs(op->arg(7)) % (int64_t)store.size()));
            const Derived& d = der(it->first);
            size_t off = (size_t)(llabs(op->arg(7)) / 7) % d.t1.size(), len = 1 + (size_t)(llabs(op->arg(8)) % 12);
            std::vector<uint16_t> q;
            for (size_t k = off; k < d.t1.size() && q.size() < len && d.t1[k] != 0x0A; k++) q.push_back(d.t1[k]);
            if (!q.empty()) pat = q;
          }
          if (pat.empty()) continue;
          bool ok;
          if (sctx.regexp) { std::string ps(pat.begin(), pat.end()); ok = parse_regex(ps, sctx.re); } else { literal_regex(pat, sctx.re); ok = true; }
          if (!ok) { c.count("pattern_outside_subset"); sctx = SCtx(); continue; }
          sctx.overlap = sctx.regexp && !plan.knob("strict_overlap") && symbols_overlap(sctx.re, sctx.fold);
          if (sctx.regexp) c.count(sctx.overlap ? "ctx_regex_overlapping_symbols" : "ctx_regex_disjoint_symbols");
          sctx.shown.assign(pat.begin(), pat.end());
          uint16_t* hp = (uint16_t*)malloc((pat.size() + 1) * sizeof(uint16_t));  // exact size: reads past the terminator are ASan reports
          for (size_t k = 0; k < pat.size(); k++) hp[k] = pat[k];
          hp[pat.size()] = 0;
          budget_begin("vbi_search_new", 50000000);
          { SutScope s2; sctx.s = vbi_search_new(dec, pgno, subno, hp, sctx.fold, sctx.regexp, sctx.prog_mode ? progress_cb : nullptr); }
          budget_end();
          free(hp);
          c.log("search_new %x.%x pattern '%s' casefold=%d regexp=%d progress=%d -> %s", pgno, subno, sctx.shown.c_str(), sctx.fold, sctx.regexp, sctx.prog_mode, sctx.s ? "ok" : "NULL");
          if (!sctx.s) { c.fail("oracle:search-new", "vbi_search_new(%x, %x, '%s', casefold=%d, regexp=%d) failed for a well-formed pattern", pgno, subno, sctx.shown.c_str(), sctx.fold, sctx.regexp); break; }
          sctx.any_sub = subno == VBI_ANY_SUBNO;
          sctx.S = (pgno << 16) | (sctx.any_sub ? 0 : subno);
          sc = &sctx;
          c.count(sctx.regexp ? "ctx_regex" : "ctx_literal");
          if (sctx.fold) c.count("ctx_casefold");
          sched.yield();
          continue;
        }
        if (!sctx.s) continue;
        int dir = (op->arg(0) & 1) ? +1 : -1;
        if (op->kind == "pass") {
          // a whole pass: ask for the next match until not-found (a cancelling progress function or a page full of
          // occurrences can make that arbitrarily long: at most 1-64 calls)
          int limit = 1 + (int)(llabs(op->arg(1)) % 64), st = VBI_SEARCH_SUCCESS;
          for (int i = 0; i < limit && !c.failed && (st == VBI_SEARCH_SUCCESS || st == VBI_SEARCH_CANCELED); i++) st = do_next(dir);
          if (st == VBI_SEARCH_NOT_FOUND) c.count("pass_ops_run_to_not_found");
          continue;
        }
        do_next(dir);
      }
      end_ctx();
    });

    int rc = sched.run(20000000);
    if (rc == 2) c.fail("harness:budget", "scheduler budget exhausted");
    if (rc == 1 && !c.failed) c.fail("harness:deadlock", "tasks blocked");
    flush();
    if (sctx.s) { SutScope ss; vbi_search_delete(sctx.s); sctx.s = nullptr; }
    sc = nullptr;
    c.state(sched.interleaving_hash());
    { SutScope ss; vbi_decoder_delete(dec); dec = nullptr; }
    if (!c.failed && alloc_track_available() && alloc_live_blocks() != 0)
      c.fail("leak", "%zu blocks (%zu bytes; sizes %s) still allocated after vbi_search_delete / vbi_decoder_delete", alloc_live_blocks(), alloc_live_bytes(), alloc_live_summary().c_str());
    c.count("search_next_calls", n_calls);
    c.count("strict_calls", n_strict_calls);
    c.count("found", n_success);
    c.count("not_found", n_notfound);
    c.count("cache_empty", n_empty);
    c.count("pages_cached", (int64_t)store.size());
    if (stat) c.count("static_runs"); else c.count("dynamic_runs");
    if (c.verbose) fprintf(stderr, "    max edges per vbi_search_next: %llu\n", (unsigned long long)max_edges_seen);
    c.nontrivial = n_success >= 1 && n_notfound >= 1 && store.size() >= 2;
    c.sim_seconds = ts - 5000.0;
    g = nullptr;
  }
};
C17* C17::g = nullptr;
ZSIM_REGISTER_WORLD(C17)

}  // namespace
