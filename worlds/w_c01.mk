# C01 world, link-time seams of this binary only:
#  gettimeofday        simulated wall clock (vbi_classify_page reads it)
#  pthread_mutex_*     self-deadlock detector: the simulation is single threaded, a lock on a
#                      mutex that is already held (library mutexes are non-recursive) never returns
#  mktime              libc re-reads the time zone on every call (frees and re-allocates its own
#                      TZ string); attributed to libc so that it is not mistaken for decoder memory
LDFLAGS_w_c01 := -Wl,--wrap=gettimeofday -Wl,--wrap=pthread_mutex_lock -Wl,--wrap=pthread_mutex_unlock -Wl,--wrap=pthread_mutex_trylock -Wl,--wrap=mktime
EXTRAOBJ_w_c01 = $(O)/wc/tripwire_c01.o
