# C01 world: the simulated clock for vbi_classify_page() and a self-deadlock
# detector for the library's (non-recursive) mutexes.  Single-threaded
# simulation: a lock on a mutex that is already held can never succeed.
LDFLAGS_w_c01 := -Wl,--wrap=gettimeofday -Wl,--wrap=pthread_mutex_lock -Wl,--wrap=pthread_mutex_unlock -Wl,--wrap=pthread_mutex_trylock -Wl,--wrap=mktime
