# link seams of the simulated kernel (simk/kernel.cc): binaries that run code doing syscalls / pthreads as simulated tasks
SIMK_WRAP := socket bind listen accept connect send recv read write close select fcntl setsockopt getsockopt \
  unlink chmod chown stat lstat readlink access open time gettimeofday alarm sleep getpid sigaction ioctl kill \
  pthread_mutex_init pthread_mutex_destroy pthread_mutex_lock pthread_mutex_trylock pthread_mutex_unlock \
  pthread_cond_init pthread_cond_destroy pthread_cond_wait pthread_cond_timedwait pthread_cond_signal pthread_cond_broadcast \
  pthread_create pthread_join pthread_exit pthread_cancel pthread_testcancel pthread_setcancelstate pthread_setcanceltype \
  pthread_sigmask __pthread_register_cancel __pthread_unregister_cancel __pthread_unwind_next
SIMK_LDFLAGS := $(foreach s,$(SIMK_WRAP),-Wl,--wrap=$(s))
SIMK_OBJ = $(O)/simk/kernel.o
